#!/usr/bin/env python3
"""mutation_run.py [--sample N] [--jobs J] [--seed S] [--only <file-substring>]

Mutation analysis of the checks: small syntactic mutants of the library (operator flips, negated
conditions, removed statements / defers / go statements, constants + 1, flipped boolean returns; sites
listed by sim/mutate) are applied one at a time to a throw-away worktree of /repo's HEAD (never to
/repo). A mutant that does not build is stillborn; one that fails a test of the repository's stable
set is killed by the suite and of no interest here; every other mutant ("passes the existing tests")
is given to the quick checks of the properties its file can affect, in order, until one reports a
violation. Results: /verif/mutation/results.json, /verif/mutation/SUMMARY.md, and the patch of every
mutant no check killed under /verif/mutation/survivors/ for analysis (equivalent mutant, outside the
properties, or a gap in a check)."""
import argparse, concurrent.futures, json, os, random, re, shutil, subprocess, sys, tempfile

ENV = dict(os.environ, GOFLAGS="-mod=mod", GOPROXY="off", GOSUMDB="off")
FILES = {
    "conn.go": ["C04", "C13", "C11"],
    "handler.go": ["C04", "C19", "C13", "C05", "C14"],
    "handler_func_pool.go": ["C19", "C05", "C06"],
    "handler_factory.go": ["C13", "C04"],
    "initiator.go": ["C13", "C04", "C06", "C15"],
    "acceptor.go": ["C13", "C04", "C06", "C15"],
    "session/session.go": ["C06", "C16", "C07", "C10", "C14", "C15", "C05", "C19", "C09", "C08"],
    "session/logon_settings.go": ["C06", "C16"],
    "utils/timer.go": ["C09", "C08", "C13"],
    "utils/event_handler_pool.go": ["C15", "C06", "C09", "C13"],
    "storages/memory/storage.go": ["C10", "C05", "C07", "C19"],
    "fix/encoding/unmarshaler.go": ["C11", "C16", "C06", "C03", "C10"],
    "fix/encoding/validator.go": ["C11", "C03", "C16"],
    "fix/message.go": ["C10", "C05", "C11", "C03", "C19"],
    "fix/generator.go": ["C05", "C03", "C11"],
    "fix/types.go": ["C16", "C06", "C11", "C10", "C05"],
    "fix/key_value.go": ["C11", "C05", "C10", "C03"],
    "fix/group.go": ["C11", "C06", "C03"],
    "fix/component.go": ["C11", "C06", "C03"],
}
OUT = "/verif/mutation"


def sh(cmd, cwd=None, env=ENV, timeout=1800):
    r = subprocess.run(cmd, cwd=cwd, env=env, stdout=subprocess.PIPE, stderr=subprocess.STDOUT, text=True, timeout=timeout)
    return r.returncode, r.stdout


def sites():
    here = os.path.dirname(os.path.abspath(__file__))
    binary = os.path.join(tempfile.mkdtemp(prefix="sfmut-", dir="/var/tmp"), "mutate")
    rc, out = sh(["go", "build", "-o", binary, "."], cwd=os.path.join(here, "mutate"))
    if rc != 0:
        sys.exit("mutate does not build: " + out)
    rc, out = sh([binary] + list(FILES), cwd="/repo")
    shutil.rmtree(os.path.dirname(binary), ignore_errors=True)
    if rc != 0:
        sys.exit("mutate failed: " + out)
    ss = json.loads(out)
    for i, s in enumerate(ss):
        s["id"] = "%s:%d:%d:%s" % (s["file"], s["line"], s["start"], re.sub(r"[^a-z0-9]+", "-", s["kind"].lower()).strip("-"))
    return ss


def one(s, stable):
    wt = tempfile.mkdtemp(prefix="sfmut-", dir="/var/tmp"); os.rmdir(wt)
    outdir = tempfile.mkdtemp(prefix="sfmutout-", dir="/var/tmp")
    res = dict(s)
    try:
        subprocess.run(["git", "-C", "/repo", "worktree", "add", "-q", "--detach", wt, "HEAD"], check=True)
        p = os.path.join(wt, s["file"])
        src = open(p, "rb").read()
        if src[s["start"]:s["end"]].decode() != s["old"]:
            res["status"] = "stale-site"
            return res
        open(p, "wb").write(src[:s["start"]] + s["new"].encode() + src[s["end"]:])
        rc, out = sh(["go", "build", "./..."], cwd=wt)
        if rc != 0:
            res["status"] = "stillborn"
            return res
        rc, out = sh(["go", "vet", "./" + os.path.dirname(s["file"])], cwd=wt)
        rc, out = sh(["go", "test", "-json", "-vet=off", "-count=1", "-timeout", "10m", "./..."], cwd=wt)
        got = {}
        for l in out.splitlines():
            try:
                e = json.loads(l)
            except ValueError:
                continue
            if e.get("Test") and e.get("Action") in ("pass", "fail"):
                got[e["Package"] + "::" + e["Test"]] = e["Action"]
        bad = [t for t in stable if got.get(t) != "pass"]
        if bad:
            res["status"] = "killed-by-suite"
            res["suite_failures"] = bad[:3]
            return res
        rc, diff = sh(["git", "diff"], cwd=wt)
        res["checks"] = {}
        for pid in FILES[s["file"]]:
            r = subprocess.run(["/verif/check", pid, "quick"], env=dict(os.environ, VERIF_REPO=wt, VERIF_OUT_DIR=outdir, VERIF_WORKERS=os.environ.get("MUT_WORKERS", "6")),
                               stdout=subprocess.PIPE, stderr=subprocess.STDOUT, text=True)
            classes = sorted(set(re.findall(r"class=(\S+) key=(.*)", r.stdout)))
            res["checks"][pid] = {"exit": r.returncode, "violations": ["%s / %s" % (c, k[:100]) for c, k in classes][:3]}
            if r.returncode == 1:
                res["status"] = "killed-by-" + pid
                return res
            if r.returncode != 0:
                res["checks"][pid]["tail"] = r.stdout[-400:]
        res["status"] = "survived"
        os.makedirs(os.path.join(OUT, "survivors"), exist_ok=True)
        with open(os.path.join(OUT, "survivors", re.sub(r"[^A-Za-z0-9_.-]+", "_", s["id"]) + ".diff"), "w") as f:
            f.write(diff)
        return res
    finally:
        subprocess.run(["git", "-C", "/repo", "worktree", "remove", "--force", wt], stdout=subprocess.DEVNULL, stderr=subprocess.DEVNULL)
        shutil.rmtree(wt, ignore_errors=True)
        shutil.rmtree(outdir, ignore_errors=True)


ALL = ["C06", "C16", "C07", "C10", "C14", "C15", "C05", "C19", "C09", "C08", "C04", "C11", "C13", "C03", "C20"]


def rescan(r):
    """second pass for a mutant the checks of its own file let through: every other check"""
    wt = tempfile.mkdtemp(prefix="sfmut-", dir="/var/tmp"); os.rmdir(wt)
    outdir = tempfile.mkdtemp(prefix="sfmutout-", dir="/var/tmp")
    try:
        subprocess.run(["git", "-C", "/repo", "worktree", "add", "-q", "--detach", wt, "HEAD"], check=True)
        p = os.path.join(wt, r["file"])
        src = open(p, "rb").read()
        if src[r["start"]:r["end"]].decode() != r["old"]:
            r["status"] = "stale-site"
            return r
        open(p, "wb").write(src[:r["start"]] + r["new"].encode() + src[r["end"]:])
        for pid in ALL:
            if pid in r["checks"] and r["checks"][pid]["exit"] == 0:
                continue
            c = subprocess.run(["/verif/check", pid, "quick"], env=dict(os.environ, VERIF_REPO=wt, VERIF_OUT_DIR=outdir, VERIF_WORKERS=os.environ.get("MUT_WORKERS", "6")),
                               stdout=subprocess.PIPE, stderr=subprocess.STDOUT, text=True)
            classes = sorted(set(re.findall(r"class=(\S+) key=(.*)", c.stdout)))
            r["checks"][pid] = {"exit": c.returncode, "violations": ["%s / %s" % (a, b[:100]) for a, b in classes][:3]}
            if c.returncode == 1:
                r["status"] = "killed-by-" + pid
                r["second_pass"] = True
                sp = os.path.join(OUT, "survivors", re.sub(r"[^A-Za-z0-9_.-]+", "_", r["id"]) + ".diff")
                if os.path.exists(sp):
                    os.remove(sp)
                return r
            if c.returncode != 0:
                r["checks"][pid]["tail"] = c.stdout[-400:]
        r["all_checks"] = True
        return r
    finally:
        subprocess.run(["git", "-C", "/repo", "worktree", "remove", "--force", wt], stdout=subprocess.DEVNULL, stderr=subprocess.DEVNULL)
        shutil.rmtree(wt, ignore_errors=True)
        shutil.rmtree(outdir, ignore_errors=True)


def summary(results):
    vp = os.path.join(OUT, "verdicts.json")  # hand-written classification of survivors: id -> text
    verdicts = json.load(open(vp)) if os.path.exists(vp) else {}
    for k, r in results.items():
        if k in verdicts:
            r["verdict"] = verdicts[k]
    by = {}
    for r in results.values():
        by.setdefault(r["status"].split("-by-")[0] if r["status"].startswith("killed-by-C") else r["status"], []).append(r)
    passing = [r for r in results.values() if r["status"] == "survived" or r["status"].startswith("killed-by-C")]
    killed = [r for r in passing if r["status"] != "survived"]
    with open(os.path.join(OUT, "SUMMARY.md"), "w") as f:
        f.write("# Mutation analysis of the checks\n\n")
        f.write("%d mutants tried: %d stillborn (do not build), %d killed by the repository's stable tests, %d pass the existing tests.\n" % (
            len(results), len(by.get("stillborn", [])), len(by.get("killed-by-suite", [])), len(passing)))
        f.write("Of those %d, the quick checks kill %d; %d survive (classified by hand below).\n\n" % (len(passing), len(killed), len(passing) - len(killed)))
        f.write("| mutant (file:line, function) | change | outcome |\n|---|---|---|\n")
        for k in sorted(results):
            r = results[k]
            if r["status"] in ("stillborn", "killed-by-suite", "stale-site"):
                continue
            out = r["status"]
            if r["status"].startswith("killed-by-C"):
                pid = r["status"][-3:]
                out += ": " + "; ".join(r["checks"][pid]["violations"][:2])
            else:
                out = "**survived** (" + ", ".join("%s exit %s" % (p, c["exit"]) for p, c in r["checks"].items()) + ")" + (" — " + r["verdict"] if r.get("verdict") else "")
            f.write("| %s:%d %s | %s: `%s` → `%s` | %s |\n" % (r["file"], r["line"], r["func"], r["kind"], r["old"].replace("|", "\\|").replace("\n", " ")[:60],
                                                       r["new"].replace("|", "\\|")[:60], out.replace("|", "\\|")))


def main():
    ap = argparse.ArgumentParser()
    ap.add_argument("--sample", type=int, default=160)
    ap.add_argument("--jobs", type=int, default=2)
    ap.add_argument("--seed", type=int, default=1)
    ap.add_argument("--only", default="")
    ap.add_argument("--summary", action="store_true")
    ap.add_argument("--rescan", action="store_true")
    ap.add_argument("--everything", action="store_true", help="with --rescan: also the survivors that already have a hand-written verdict")
    a = ap.parse_args()
    os.makedirs(OUT, exist_ok=True)
    rp = os.path.join(OUT, "results.json")
    results = json.load(open(rp)) if os.path.exists(rp) else {}
    if a.summary:
        summary(results)
        return
    if a.rescan:
        vp = os.path.join(OUT, "verdicts.json")
        verdicts = json.load(open(vp)) if os.path.exists(vp) else {}
        todo = [r for r in results.values() if r["status"] == "survived" and not r.get("all_checks") and (a.everything or r["id"] not in verdicts)]
        print("%d survivors to rescan" % len(todo), flush=True)
        with concurrent.futures.ThreadPoolExecutor(max_workers=a.jobs) as ex:
            for r in ex.map(rescan, todo):
                results[r["id"]] = r
                print(r["id"], r["status"], flush=True)
                json.dump(results, open(rp, "w"), indent=1, sort_keys=True)
                summary(results)
        return
    with open("/root/.vp/BASELINE.json") as f:
        stable = json.load(f)["stable_pass"]
    ss = [s for s in sites() if a.only in s["file"]]
    rnd = random.Random(a.seed)
    # stratified: every file gets its share, the big session file is capped
    byfile = {}
    for s in ss:
        byfile.setdefault(s["file"], []).append(s)
    chosen = []
    per = max(4, a.sample // max(1, len(byfile)))
    for fn, lst in sorted(byfile.items()):
        rnd.shuffle(lst)
        k = per * 5 if fn.endswith("session.go") else per
        chosen.extend(lst[:k])
    chosen = [s for s in chosen if s["id"] not in results][:a.sample]
    print("%d sites, %d chosen" % (len(ss), len(chosen)), flush=True)
    with concurrent.futures.ThreadPoolExecutor(max_workers=a.jobs) as ex:
        for r in ex.map(lambda s: one(s, stable), chosen):
            results[r["id"]] = r
            print(r["id"], r["status"], flush=True)
            json.dump(results, open(rp, "w"), indent=1, sort_keys=True)
            summary(results)


if __name__ == "__main__":
    main()
