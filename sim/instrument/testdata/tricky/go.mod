module tricky

go 1.18
