package tricky

import (
	"context"
	"testing"
	"time"
)

func TestTricky(t *testing.T) {
	ctx, cancel := context.WithCancel(context.Background())
	defer cancel()
	ch := make(chan int)
	go func() { _ = producer(ctx, ch, 10) }()
	quit := make(chan struct{}, 1)
	go func() { time.Sleep(50 * time.Millisecond); quit <- struct{}{} }()
	sum, _ := consume(ctx, ch, quit)
	if sum == 0 {
		t.Fatal("nothing consumed")
	}
	p := newPool[int]()
	if p.add(1) != 1 {
		t.Fatal("add")
	}
	ready := false
	done := make(chan struct{})
	go func() { condWait(p, &ready); close(done) }()
	time.Sleep(10 * time.Millisecond)
	condSignal(p, &ready)
	<-done
	n := 0
	waitAll(func() { n++ })
	c := make(chan int, 2)
	c <- 1
	c <- 2
	if recvResult(c) != 1 {
		t.Fatal("recv")
	}
	if v, _ := two(c); v != 2 {
		t.Fatal("two")
	}
	fired := make(chan struct{})
	after(5*time.Millisecond, func() { close(fired) })
	<-fired
	e := &embedded{}
	d2 := make(chan struct{})
	startMethod(e, d2)
	<-d2
}
