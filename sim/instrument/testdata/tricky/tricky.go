// Package tricky collects the constructs the instrumenter must rewrite faithfully.
package tricky

import (
	"context"
	"errors"
	"sync"
	"sync/atomic"
	"time"
)

type pool[T any] struct {
	mu    sync.RWMutex
	items []T
	once  sync.Once
	cond  *sync.Cond
	n     int64
}

type embedded struct {
	sync.Mutex // anonymous
	v          int
}

func newPool[T any]() *pool[T] {
	p := &pool[T]{}
	p.cond = sync.NewCond(&sync.Mutex{})
	return p
}

func (p *pool[T]) add(x T) int {
	p.mu.Lock()
	defer p.mu.Unlock()
	p.items = append(p.items, x)
	atomic.AddInt64(&p.n, 1)
	return len(p.items)
}

type worker struct{ jobs chan func() }

func (w *worker) Go(f func()) { w.jobs <- f } // a Go method that is not errgroup's

func producer(ctx context.Context, out chan<- int, n int) error {
	defer close(out)
	for i := 0; i < n; i++ {
		select {
		case out <- i:
		case <-ctx.Done():
			return ctx.Err()
		}
	}
	return nil
}

func consume(ctx context.Context, in <-chan int, quit chan struct{}) (sum int, err error) {
	timer := time.NewTimer(time.Hour)
	defer timer.Stop()
outer:
	for {
		select {
		case v, ok := <-in:
			if !ok {
				break outer
			}
			if v%2 == 0 {
				continue
			}
			sum += v
		case <-quit:
			return sum, errors.New("quit")
		case <-timer.C:
			break outer
		default:
			select {
			case <-ctx.Done():
				return sum, ctx.Err()
			case v := <-in:
				sum += v
			}
		}
	}
	for v := range in {
		sum += v
	}
	if v, ok := <-in; ok {
		sum += v
	}
	switch x := <-quitOrNil(quit); x {
	default:
	}
	return sum, nil
}

func quitOrNil(q chan struct{}) chan struct{} { return q }

func recvResult(c chan int) int { return <-c }

func two(c chan int) (int, error) { return <-c, nil }

func waitAll(fs ...func()) {
	var wg sync.WaitGroup
	w := &worker{jobs: make(chan func(), len(fs))}
	for _, f := range fs {
		f := f
		wg.Add(1)
		w.Go(func() { defer wg.Done(); f() })
	}
	go func() {
		for j := range w.jobs {
			j()
		}
	}()
	wg.Wait()
	close(w.jobs)
}

func condWait(p *pool[int], ready *bool) {
	p.cond.L.Lock()
	for !*ready {
		p.cond.Wait()
	}
	p.cond.L.Unlock()
}

func condSignal(p *pool[int], ready *bool) {
	p.cond.L.Lock()
	*ready = true
	p.cond.L.Unlock()
	p.cond.Broadcast()
}

func after(d time.Duration, f func()) *time.Timer { return time.AfterFunc(d, f) }

func spin(flag *int32) {
	for atomic.LoadInt32(flag) == 0 {
		time.Sleep(time.Millisecond)
	}
}

func (e *embedded) inc() { e.Lock(); e.v++; e.Unlock() }

func startMethod(e *embedded, done chan struct{}) {
	go e.inc()
	go func(ch chan struct{}) { close(ch) }(done)
}
