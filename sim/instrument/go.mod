module verif/instrument

go 1.21
