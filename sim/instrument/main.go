// Command instrument rewrites a scratch copy of a Go module so that every
// synchronisation point becomes a scheduling point of verif/simrt.
//
// For every file x.go that needs a rewrite it writes x_verif.go (//go:build verif)
// and prefixes the original with //go:build !verif, so the same tree builds as the
// shipped library without the tag and as the instrumented one with it.
//
// Rewrites (see DESIGN.md §2.2):
//
//	sync.Mutex / sync.RWMutex / sync.Once      -> simrt.Mutex / RWMutex / Once
//	go f(x)                                    -> simrt.Go(site, func(){ f(x) })
//	X.Go(f) (errgroup), time.AfterFunc(d, f)   -> argument wrapped by simrt.WrapE / simrt.Wrap
//	statement with a channel op / Wait / Sleep -> simrt.Yield before and after
//	statement with atomic.*, close, cancel,
//	  .Close(), .Stop()                        -> simrt.Yield before
//	range over a channel (or unknown type)     -> yields around every receive
//	select                                     -> seeded polling order + blocking fallback
//
// Anything it cannot rewrite faithfully is a hard error (exit 2), never a silent skip.
package main

import (
	"bytes"
	"encoding/json"
	"flag"
	"fmt"
	"go/ast"
	"go/format"
	"go/parser"
	"go/token"
	"go/types"
	"os"
	"path/filepath"
	"regexp"
	"sort"
	"strconv"
	"strings"
)

const simrtPath = "verif/simrt"

var stats = map[string]int{}

type fatal struct{ msg string }

func bail(format string, a ...interface{}) { panic(fatal{fmt.Sprintf(format, a...)}) }

type rw struct {
	fset  *token.FileSet
	src   []byte
	base  string
	info  *types.Info
	tmp   int
	nres  []int // result counts of enclosing functions
	dense bool
}

func (r *rw) raw(n ast.Node) string { return string(r.src[r.off(n.Pos()):r.off(n.End())]) }
func (r *rw) off(p token.Pos) int   { return r.fset.Position(p).Offset }
func (r *rw) site(p token.Pos) string {
	return r.base + ":" + strconv.Itoa(r.fset.Position(p).Line)
}
func (r *rw) q(p token.Pos) string       { return strconv.Quote(r.site(p)) }
func (r *rw) qp(p token.Pos) string      { return strconv.Quote(r.site(p) + "'") }
func (r *rw) yield(p token.Pos) string   { return "simrt.Yield(" + r.q(p) + ")" }
func (r *rw) yieldP(p token.Pos) string  { return "simrt.Yield(" + r.qp(p) + ")" }
func (r *rw) fresh(prefix string) string { r.tmp++; return "_" + prefix + strconv.Itoa(r.tmp) }

type edit struct {
	from, to int
	text     string
}

// expr renders node n from source, replacing nested rewritable expressions.
func (r *rw) expr(n ast.Node) string {
	if n == nil {
		return ""
	}
	var edits []edit
	ast.Inspect(n, func(x ast.Node) bool {
		if x == nil {
			return false
		}
		switch x := x.(type) {
		case *ast.FuncLit:
			r.nres = append(r.nres, countResults(x.Type))
			t := "func" + r.sig(x.Type) + " " + r.block(x.Body)
			r.nres = r.nres[:len(r.nres)-1]
			edits = append(edits, edit{r.off(x.Pos()), r.off(x.End()), t})
			return false
		case *ast.SelectorExpr:
			if id, ok := x.X.(*ast.Ident); ok && id.Name == "sync" && id.Obj == nil {
				switch x.Sel.Name {
				case "Mutex", "RWMutex", "Once":
					stats["sync."+x.Sel.Name]++
					edits = append(edits, edit{r.off(x.Pos()), r.off(x.End()), "simrt." + x.Sel.Name})
					return false
				case "Cond", "NewCond":
					stats["sync.Cond"]++
					edits = append(edits, edit{r.off(x.Pos()), r.off(x.End()), "simrt." + x.Sel.Name})
					return false
				}
			}
		case *ast.CallExpr:
			if sel, ok := x.Fun.(*ast.SelectorExpr); ok {
				if id, ok := sel.X.(*ast.Ident); ok && id.Name == "time" && sel.Sel.Name == "AfterFunc" && len(x.Args) == 2 {
					stats["time.AfterFunc"]++
					t := "time.AfterFunc(" + r.expr(x.Args[0]) + ", simrt.Wrap(" + r.q(x.Pos()) + ", " + r.expr(x.Args[1]) + "))"
					edits = append(edits, edit{r.off(x.Pos()), r.off(x.End()), t})
					return false
				}
				if sel.Sel.Name == "Go" && len(x.Args) == 1 && !x.Ellipsis.IsValid() {
					if id, ok := sel.X.(*ast.Ident); !ok || id.Name != "simrt" {
						stats["X.Go"]++
						t := r.expr(x.Fun) + "(simrt.WrapG(" + r.q(x.Pos()) + ", " + r.expr(x.Args[0]) + "))"
						edits = append(edits, edit{r.off(x.Pos()), r.off(x.End()), t})
						return false
					}
				}
			}
		}
		return true
	})
	return r.apply(n, edits)
}

func (r *rw) apply(n ast.Node, edits []edit) string {
	start, end := r.off(n.Pos()), r.off(n.End())
	if len(edits) == 0 {
		return string(r.src[start:end])
	}
	sort.Slice(edits, func(i, j int) bool { return edits[i].from < edits[j].from })
	var b strings.Builder
	p := start
	for _, e := range edits {
		b.Write(r.src[p:e.from])
		b.WriteString(e.text)
		p = e.to
	}
	b.Write(r.src[p:end])
	return b.String()
}

// sig renders a function type without the func keyword: "(params) results".
func (r *rw) sig(t *ast.FuncType) string {
	s := "(" + r.fieldList(t.Params) + ")"
	if t.Results != nil {
		if t.Results.Opening.IsValid() {
			s += " (" + r.fieldList(t.Results) + ")"
		} else {
			s += " " + r.fieldList(t.Results)
		}
	}
	return s
}

func (r *rw) fieldList(fl *ast.FieldList) string {
	if fl == nil {
		return ""
	}
	var parts []string
	for _, f := range fl.List {
		parts = append(parts, r.expr(f))
	}
	return strings.Join(parts, ", ")
}

func countResults(t *ast.FuncType) int {
	if t.Results == nil {
		return 0
	}
	n := 0
	for _, f := range t.Results.List {
		if len(f.Names) == 0 {
			n++
		} else {
			n += len(f.Names)
		}
	}
	return n
}

func (r *rw) block(b *ast.BlockStmt) string {
	if b == nil {
		return ""
	}
	return "{\n" + r.list(b.List) + "}"
}

func (r *rw) list(l []ast.Stmt) string {
	var b strings.Builder
	for _, s := range l {
		pre, body, post := r.stmt(s)
		b.WriteString(pre)
		b.WriteString(body)
		b.WriteString(post)
		b.WriteString("\n")
	}
	return b.String()
}

type ops struct{ pre, block bool }

var cancelRe = regexp.MustCompile(`(?i)cancel`)

// scan reports which scheduling-relevant operations node n performs at its own
// level (function literals nested inside are handled where they are rendered).
func scan(n ast.Node) (o ops) {
	if n == nil {
		return
	}
	ast.Inspect(n, func(x ast.Node) bool {
		switch x := x.(type) {
		case *ast.FuncLit:
			return false
		case *ast.UnaryExpr:
			if x.Op == token.ARROW {
				o.block = true
			}
		case *ast.SendStmt:
			o.block = true
		case *ast.CallExpr:
			switch f := x.Fun.(type) {
			case *ast.Ident:
				if f.Name == "close" || cancelRe.MatchString(f.Name) {
					o.pre = true
				}
			case *ast.SelectorExpr:
				if id, ok := f.X.(*ast.Ident); ok {
					if id.Name == "atomic" {
						o.pre = true
					}
					if id.Name == "time" && f.Sel.Name == "Sleep" {
						o.block = true
					}
					if id.Name == "simrt" {
						return true
					}
				}
				switch f.Sel.Name {
				case "Wait":
					o.block = true
				case "Close", "Stop":
					o.pre = true
				default:
					if cancelRe.MatchString(f.Sel.Name) {
						o.pre = true
					}
				}
			}
		}
		return true
	})
	return
}

func (o ops) any() bool { return o.pre || o.block }

// wrap returns the yield prefix/suffix for a statement at position p with ops o.
func (r *rw) wrap(p token.Pos, o ops) (pre, post string) {
	if o.any() {
		stats["yield-stmt"]++
		pre = r.yield(p) + "\n"
	}
	if o.block {
		post = "\n" + r.yieldP(p)
	}
	return
}

// stmt renders a statement as (pre, body, post); a label, if any, goes between
// pre and body.
func (r *rw) stmt(s ast.Stmt) (pre, body, post string) {
	switch s := s.(type) {
	case nil:
		return
	case *ast.BlockStmt:
		return "", r.block(s), ""
	case *ast.LabeledStmt:
		p, b, q := r.stmt(s.Stmt)
		return p, s.Label.Name + ":\n" + b, q
	case *ast.EmptyStmt:
		return
	case *ast.IfStmt:
		return r.ifStmt(s)
	case *ast.ForStmt:
		return r.forStmt(s)
	case *ast.RangeStmt:
		return r.rangeStmt(s)
	case *ast.SwitchStmt:
		return r.switchStmt(s)
	case *ast.TypeSwitchStmt:
		return r.typeSwitchStmt(s)
	case *ast.SelectStmt:
		return r.selectStmt(s)
	case *ast.GoStmt:
		return "", r.goStmt(s), ""
	case *ast.DeferStmt:
		// the deferred call runs at function exit: no yields here, only nested literals
		return "", r.expr(s), ""
	case *ast.ReturnStmt:
		return r.returnStmt(s)
	case *ast.CaseClause, *ast.CommClause:
		bail("%s: unexpected clause", r.site(s.Pos()))
	}
	// simple statements
	o := scan(s)
	pre, post = r.wrap(s.Pos(), o)
	return pre, r.expr(s), post
}

func (r *rw) simple(s ast.Stmt) string {
	if s == nil {
		return ""
	}
	p, b, q := r.stmt(s)
	return p + b + q
}

func (r *rw) returnStmt(s *ast.ReturnStmt) (pre, body, post string) {
	o := scan(s)
	if !o.any() {
		return "", r.expr(s), ""
	}
	pre = r.yield(s.Pos()) + "\n"
	stats["yield-stmt"]++
	if !o.block {
		return pre, r.expr(s), ""
	}
	// hoist every result expression that blocks, park, then return
	nres := 0
	if len(r.nres) > 0 {
		nres = r.nres[len(r.nres)-1]
	}
	var outs []string
	var hoist strings.Builder
	if len(s.Results) == 1 && nres > 1 {
		var names []string
		for i := 0; i < nres; i++ {
			names = append(names, r.fresh("ret"))
		}
		hoist.WriteString(strings.Join(names, ", ") + " := " + r.expr(s.Results[0]) + "\n")
		outs = names
	} else {
		for _, e := range s.Results {
			if scan(e).block {
				n := r.fresh("ret")
				hoist.WriteString(n + " := " + r.expr(e) + "\n")
				outs = append(outs, n)
			} else {
				outs = append(outs, r.expr(e))
			}
		}
	}
	stats["return-hoist"]++
	return pre, hoist.String() + r.yieldP(s.Pos()) + "\nreturn " + strings.Join(outs, ", "), ""
}

func (r *rw) goStmt(s *ast.GoStmt) string {
	stats["go"]++
	c := s.Call
	if fl, ok := c.Fun.(*ast.FuncLit); ok && len(c.Args) == 0 && countResults(fl.Type) == 0 {
		return "simrt.Go(" + r.q(s.Pos()) + ", " + r.expr(fl) + ")"
	}
	var b strings.Builder
	b.WriteString("{\n")
	var args []string
	for _, a := range c.Args {
		n := r.fresh("g")
		b.WriteString(n + " := " + r.expr(a) + "\n")
		args = append(args, n)
	}
	call := r.expr(c.Fun) + "(" + strings.Join(args, ", ")
	if c.Ellipsis.IsValid() {
		call += "..."
	}
	call += ")"
	b.WriteString("simrt.Go(" + r.q(s.Pos()) + ", func() { " + call + " })\n}")
	return b.String()
}

func (r *rw) ifStmt(s *ast.IfStmt) (pre, body, post string) {
	oi, oc := scan(s.Init), scan(s.Cond)
	var els string
	if s.Else != nil {
		p, b, q := r.stmt(s.Else)
		if p != "" || q != "" {
			els = " else {\n" + p + b + q + "\n}"
		} else {
			els = " else " + b
		}
	}
	if !oi.any() && !oc.any() {
		h := "if "
		if s.Init != nil {
			h += r.expr(s.Init) + "; "
		}
		return "", h + r.expr(s.Cond) + " " + r.block(s.Body) + els, ""
	}
	// hoist: { init (with yields); cond (with yields); if c {...} }
	var b strings.Builder
	b.WriteString("{\n")
	if s.Init != nil {
		b.WriteString(r.simple(s.Init) + "\n")
	}
	cond := r.expr(s.Cond)
	if oc.any() {
		c := r.fresh("cond")
		p, q := r.wrap(s.Cond.Pos(), oc)
		b.WriteString(p + c + " := " + cond + q + "\n")
		cond = c
	}
	stats["if-hoist"]++
	return b.String(), "if " + cond + " " + r.block(s.Body) + els, "\n}"
}

func (r *rw) forStmt(s *ast.ForStmt) (pre, body, post string) {
	o := ops{}
	for _, n := range []ast.Node{s.Init, s.Cond, s.Post} {
		if n == nil || n == ast.Node(nil) {
			continue
		}
		x := scan(n)
		o.pre = o.pre || x.pre
		o.block = o.block || x.block
	}
	if o.block {
		bail("%s: blocking operation in a for header is not supported", r.site(s.Pos()))
	}
	h := "for "
	if s.Init != nil || s.Post != nil {
		h += r.simpleHdr(s.Init) + "; " + r.exprOrEmpty(s.Cond) + "; " + r.simpleHdr(s.Post) + " "
	} else if s.Cond != nil {
		h += r.expr(s.Cond) + " "
	}
	bl := r.block(s.Body)
	if o.pre {
		bl = "{\n" + r.yield(s.Pos()) + "\n" + strings.TrimPrefix(bl, "{\n")
	}
	return "", h + bl, ""
}

func (r *rw) simpleHdr(s ast.Stmt) string {
	if s == nil {
		return ""
	}
	return r.expr(s)
}

func (r *rw) exprOrEmpty(e ast.Expr) string {
	if e == nil {
		return ""
	}
	return r.expr(e)
}

// chanKind: 1 definitely a channel, 0 definitely not, -1 unknown.
func (r *rw) chanKind(e ast.Expr) int {
	if r.info != nil {
		if tv, ok := r.info.Types[e]; ok && tv.Type != nil {
			if b, ok := tv.Type.(*types.Basic); !ok || b.Kind() != types.Invalid {
				if _, ok := tv.Type.Underlying().(*types.Chan); ok {
					return 1
				}
				return 0
			}
		}
	}
	switch e.(type) {
	case *ast.CompositeLit, *ast.BasicLit:
		return 0
	}
	return -1
}

func (r *rw) rangeStmt(s *ast.RangeStmt) (pre, body, post string) {
	h := "for "
	if s.Key != nil {
		h += r.expr(s.Key)
		if s.Value != nil {
			h += ", " + r.expr(s.Value)
		}
		h += " " + s.Tok.String() + " "
	}
	h += "range " + r.expr(s.X) + " "
	k := r.chanKind(s.X)
	if k == 0 {
		return "", h + r.block(s.Body), ""
	}
	if k == 1 {
		stats["range-chan"]++
	} else {
		stats["range-unknown"]++
	}
	bl := "{\n" + r.yieldP(s.Pos()) + "\n" + r.list(s.Body.List) + r.yield(s.Pos()) + "\n}"
	return r.yield(s.Pos()) + "\n", h + bl, "\n" + r.yieldP(s.Pos())
}

func (r *rw) clauses(b *ast.BlockStmt) string {
	var sb strings.Builder
	sb.WriteString("{\n")
	for _, c := range b.List {
		cc := c.(*ast.CaseClause)
		if cc.List == nil {
			sb.WriteString("default:\n")
		} else {
			var es []string
			for _, e := range cc.List {
				es = append(es, r.expr(e))
			}
			sb.WriteString("case " + strings.Join(es, ", ") + ":\n")
		}
		sb.WriteString(r.list(cc.Body))
	}
	sb.WriteString("}")
	return sb.String()
}

func (r *rw) switchStmt(s *ast.SwitchStmt) (pre, body, post string) {
	oi, ot := scan(s.Init), ops{}
	if s.Tag != nil {
		ot = scan(s.Tag)
	}
	if !oi.any() && !ot.any() {
		h := "switch "
		if s.Init != nil {
			h += r.expr(s.Init) + "; "
		}
		if s.Tag != nil {
			h += r.expr(s.Tag) + " "
		}
		return "", h + r.clauses(s.Body), ""
	}
	var b strings.Builder
	b.WriteString("{\n")
	if s.Init != nil {
		b.WriteString(r.simple(s.Init) + "\n")
	}
	tag := ""
	if s.Tag != nil {
		tag = r.expr(s.Tag)
		if ot.any() {
			t := r.fresh("tag")
			p, q := r.wrap(s.Tag.Pos(), ot)
			b.WriteString(p + t + " := " + tag + q + "\n")
			tag = t
		}
	}
	stats["switch-hoist"]++
	return b.String(), "switch " + tag + " " + r.clauses(s.Body), "\n}"
}

func (r *rw) typeSwitchStmt(s *ast.TypeSwitchStmt) (pre, body, post string) {
	o := scan(s.Init)
	o2 := scan(s.Assign)
	if o.block || o2.block {
		bail("%s: blocking operation in a type switch header is not supported", r.site(s.Pos()))
	}
	h := "switch "
	if s.Init != nil {
		h += r.expr(s.Init) + "; "
	}
	h += r.expr(s.Assign) + " "
	return "", h + r.clauses(s.Body), ""
}

func unparen(e ast.Expr) ast.Expr {
	for {
		p, ok := e.(*ast.ParenExpr)
		if !ok {
			return e
		}
		e = p.X
	}
}

type selCase struct {
	cc      *ast.CommClause
	send    bool
	ch, val string // temporaries
	rv, ok  string // receive temporaries ("" when the value is discarded)
	lhs     []string
	define  bool
}

func (r *rw) selectStmt(s *ast.SelectStmt) (pre, body, post string) {
	stats["select"]++
	id := strconv.Itoa(func() int { r.tmp++; return r.tmp }())
	if len(s.Body.List) == 0 {
		return r.yield(s.Pos()) + "\n", "select {}", ""
	}
	var cases []*selCase
	var def *ast.CommClause
	var b strings.Builder
	b.WriteString("{\n")
	for i, c := range s.Body.List {
		cc := c.(*ast.CommClause)
		if cc.Comm == nil {
			def = cc
			continue
		}
		sc := &selCase{cc: cc}
		n := strconv.Itoa(i)
		sc.ch = "_c" + id + "_" + n
		switch st := cc.Comm.(type) {
		case *ast.SendStmt:
			sc.send = true
			sc.val = "_v" + id + "_" + n
			b.WriteString(sc.ch + " := " + r.expr(st.Chan) + "\n")
			b.WriteString(sc.val + " := simrt.Elem(" + sc.ch + ", " + r.expr(st.Value) + ")\n")
		case *ast.ExprStmt:
			u, ok := unparen(st.X).(*ast.UnaryExpr)
			if !ok || u.Op != token.ARROW {
				bail("%s: unsupported select case", r.site(cc.Pos()))
			}
			b.WriteString(sc.ch + " := " + r.expr(u.X) + "\n")
		case *ast.AssignStmt:
			if len(st.Rhs) != 1 {
				bail("%s: unsupported select case", r.site(cc.Pos()))
			}
			u, ok := unparen(st.Rhs[0]).(*ast.UnaryExpr)
			if !ok || u.Op != token.ARROW {
				bail("%s: unsupported select case", r.site(cc.Pos()))
			}
			b.WriteString(sc.ch + " := " + r.expr(u.X) + "\n")
			sc.rv = "_r" + id + "_" + n
			sc.ok = "_ok" + id + "_" + n
			b.WriteString(sc.rv + ", " + sc.ok + " := simrt.Zero(" + sc.ch + ")\n_, _ = " + sc.rv + ", " + sc.ok + "\n")
			for _, l := range st.Lhs {
				sc.lhs = append(sc.lhs, r.expr(l))
			}
			sc.define = st.Tok == token.DEFINE
		default:
			bail("%s: unsupported select case", r.site(cc.Pos()))
		}
		cases = append(cases, sc)
	}
	k := "_k" + id
	n := len(cases)
	b.WriteString(k + " := -1\n")
	b.WriteString(r.yield(s.Pos()) + "\n")
	comm := func(sc *selCase) string {
		switch {
		case sc.send:
			return sc.ch + " <- " + sc.val
		case sc.rv != "":
			return sc.rv + ", " + sc.ok + " = <-" + sc.ch
		default:
			return "<-" + sc.ch
		}
	}
	if n > 0 {
		st, j := "_s"+id, "_j"+id
		b.WriteString("for " + st + ", " + j + " := simrt.Perm(" + r.q(s.Pos()) + ", " + strconv.Itoa(n) + "), 0; " + j + " < " + strconv.Itoa(n) + " && " + k + " < 0; " + j + "++ {\n")
		b.WriteString("switch (" + st + " + " + j + ") % " + strconv.Itoa(n) + " {\n")
		for i, sc := range cases {
			b.WriteString("case " + strconv.Itoa(i) + ":\nselect {\ncase " + comm(sc) + ":\n" + k + " = " + strconv.Itoa(i) + "\ndefault:\n}\n")
		}
		b.WriteString("}\n}\n")
	}
	if def == nil {
		b.WriteString("if " + k + " < 0 {\nselect {\n")
		for i, sc := range cases {
			b.WriteString("case " + comm(sc) + ":\n" + k + " = " + strconv.Itoa(i) + "\n")
		}
		b.WriteString("}\n" + r.yieldP(s.Pos()) + "\n}\n")
	}
	// dispatch
	var d strings.Builder
	d.WriteString("switch " + k + " {\n")
	for i, sc := range cases {
		d.WriteString("case " + strconv.Itoa(i) + ":\n")
		if len(sc.lhs) > 0 {
			tok := " = "
			if sc.define {
				tok = " := "
			}
			rhs := sc.rv
			if len(sc.lhs) == 2 {
				rhs += ", " + sc.ok
			}
			d.WriteString(strings.Join(sc.lhs, ", ") + tok + rhs + "\n")
		}
		d.WriteString(r.list(sc.cc.Body))
	}
	if def != nil {
		d.WriteString("default:\n" + r.list(def.Body))
	} else {
		// keeps the switch a terminating statement whenever the select was one
		d.WriteString("default:\npanic(\"simrt: unreachable select dispatch\")\n")
	}
	d.WriteString("}")
	return b.String(), d.String(), "\n}"
}

func (r *rw) funcDecl(d *ast.FuncDecl) string {
	if d.Body == nil {
		return r.raw(d)
	}
	head := string(r.src[r.off(d.Pos()):r.off(d.Type.Pos())]) // "func (recv) Name" up to the signature... Type.Pos is the func keyword
	_ = head
	var b strings.Builder
	b.WriteString("func ")
	if d.Recv != nil {
		b.WriteString("(" + r.fieldList(d.Recv) + ") ")
	}
	b.WriteString(d.Name.Name)
	if d.Type.TypeParams != nil {
		b.WriteString("[" + r.fieldList(d.Type.TypeParams) + "]")
	}
	b.WriteString(r.sig(d.Type) + " ")
	r.nres = append(r.nres, countResults(d.Type))
	b.WriteString(r.block(d.Body))
	r.nres = r.nres[:len(r.nres)-1]
	return b.String()
}

var syncUse = regexp.MustCompile(`\bsync\.`)

func (r *rw) file(f *ast.File) string {
	var body strings.Builder
	for _, d := range f.Decls {
		switch d := d.(type) {
		case *ast.FuncDecl:
			if d.Doc != nil {
				for _, c := range d.Doc.List {
					if strings.HasPrefix(c.Text, "//go:") {
						body.WriteString(c.Text + "\n")
					}
				}
			}
			body.WriteString(r.funcDecl(d) + "\n\n")
		case *ast.GenDecl:
			if d.Tok == token.IMPORT {
				continue
			}
			body.WriteString(r.expr(d) + "\n\n")
		}
	}
	text := body.String()
	var imp strings.Builder
	imp.WriteString("import (\n")
	for _, is := range f.Imports {
		path, _ := strconv.Unquote(is.Path.Value)
		if path == "C" {
			bail("%s: cgo is not supported", r.base)
		}
		if path == "sync" && is.Name == nil && !syncUse.MatchString(text) {
			continue
		}
		if is.Name != nil {
			imp.WriteString(is.Name.Name + " ")
		}
		imp.WriteString(is.Path.Value + "\n")
	}
	imp.WriteString("simrt " + strconv.Quote(simrtPath) + "\n)\n\n")
	return "package " + f.Name.Name + "\n\n" + imp.String() + text
}

type fakeImporter struct{ pkgs map[string]*types.Package }

func (fi *fakeImporter) Import(path string) (*types.Package, error) {
	if p, ok := fi.pkgs[path]; ok {
		return p, nil
	}
	name := path
	if i := strings.LastIndex(path, "/"); i >= 0 {
		name = path[i+1:]
	}
	p := types.NewPackage(path, name)
	p.MarkComplete()
	fi.pkgs[path] = p
	return p, nil
}

func needsRewrite(f *ast.File) bool {
	found := false
	ast.Inspect(f, func(n ast.Node) bool {
		switch x := n.(type) {
		case *ast.GoStmt, *ast.SelectStmt, *ast.SendStmt, *ast.ChanType:
			found = true
		case *ast.UnaryExpr:
			if x.Op == token.ARROW {
				found = true
			}
		case *ast.ImportSpec:
			switch x.Path.Value {
			case `"sync"`, `"sync/atomic"`, `"golang.org/x/sync/errgroup"`, `"context"`, `"time"`:
				found = true
			}
		}
		return !found
	})
	return found
}

func processDir(dir string, dense bool) (changed []string) {
	fset := token.NewFileSet()
	ents, err := os.ReadDir(dir)
	if err != nil {
		bail("%v", err)
	}
	var files []*ast.File
	var names []string
	srcs := map[string][]byte{}
	for _, e := range ents {
		n := e.Name()
		if e.IsDir() || !strings.HasSuffix(n, ".go") || strings.HasSuffix(n, "_test.go") || strings.HasSuffix(n, "_verif.go") {
			continue
		}
		p := filepath.Join(dir, n)
		src, err := os.ReadFile(p)
		if err != nil {
			bail("%v", err)
		}
		f, err := parser.ParseFile(fset, p, src, parser.ParseComments)
		if err != nil {
			bail("parse %s: %v", p, err)
		}
		files = append(files, f)
		names = append(names, p)
		srcs[p] = src
	}
	if len(files) == 0 {
		return nil
	}
	// best-effort type information: imports are faked, errors ignored
	info := &types.Info{Types: map[ast.Expr]types.TypeAndValue{}}
	conf := types.Config{Importer: &fakeImporter{pkgs: map[string]*types.Package{}}, Error: func(error) {}, FakeImportC: true}
	byPkg := map[string][]*ast.File{}
	for _, f := range files {
		byPkg[f.Name.Name] = append(byPkg[f.Name.Name], f)
	}
	for name, fs := range byPkg {
		func() {
			defer func() { recover() }()
			conf.Check(name, fset, fs, info)
		}()
	}
	for i, f := range files {
		p := names[i]
		if !needsRewrite(f) {
			continue
		}
		for _, cg := range f.Comments {
			for _, c := range cg.List {
				if strings.HasPrefix(c.Text, "//go:build") || strings.HasPrefix(c.Text, "// +build") {
					bail("%s: file already has build constraints; refusing to instrument", p)
				}
			}
		}
		r := &rw{fset: fset, src: srcs[p], base: relBase(p), info: info, dense: dense}
		before := snapshot()
		out := r.file(f)
		if !changedSince(before) {
			continue
		}
		fm, err := format.Source([]byte(out))
		if err != nil {
			os.WriteFile(p+".instrument-failed", []byte(out), 0o644)
			bail("instrumented %s does not parse: %v (see %s.instrument-failed)", p, err, p)
		}
		vp := strings.TrimSuffix(p, ".go") + "_verif.go"
		if err := os.WriteFile(vp, append([]byte("//go:build verif\n\n"), fm...), 0o644); err != nil {
			bail("%v", err)
		}
		if err := os.WriteFile(p, append([]byte("//go:build !verif\n\n"), srcs[p]...), 0o644); err != nil {
			bail("%v", err)
		}
		changed = append(changed, p)
	}
	return changed
}

var rootDir string

func relBase(p string) string {
	rel, err := filepath.Rel(rootDir, p)
	if err != nil {
		return filepath.Base(p)
	}
	return filepath.ToSlash(rel)
}

func snapshot() map[string]int {
	m := map[string]int{}
	for k, v := range stats {
		m[k] = v
	}
	return m
}

func changedSince(b map[string]int) bool {
	for k, v := range stats {
		if b[k] != v {
			return true
		}
	}
	return false
}

func main() {
	root := flag.String("root", "", "module root of the scratch copy")
	skip := flag.String("skip", "cmd,examples,generator,tests,source,.git,simrt", "comma separated top-level directories to leave alone")
	dense := flag.Bool("dense", false, "reserved")
	flag.Parse()
	if *root == "" {
		fmt.Fprintln(os.Stderr, "usage: instrument -root DIR")
		os.Exit(2)
	}
	rootDir, _ = filepath.Abs(*root)
	skipSet := map[string]bool{}
	for _, s := range strings.Split(*skip, ",") {
		skipSet[s] = true
	}
	var all []string
	code := 0
	func() {
		defer func() {
			if e := recover(); e != nil {
				if f, ok := e.(fatal); ok {
					fmt.Fprintln(os.Stderr, "instrument: "+f.msg)
					code = 2
					return
				}
				panic(e)
			}
		}()
		filepath.Walk(rootDir, func(p string, fi os.FileInfo, err error) error {
			if err != nil {
				return err
			}
			if !fi.IsDir() {
				return nil
			}
			rel, _ := filepath.Rel(rootDir, p)
			top := strings.Split(filepath.ToSlash(rel), "/")[0]
			if rel != "." && (skipSet[top] || strings.HasPrefix(fi.Name(), ".") || fi.Name() == "testdata") {
				return filepath.SkipDir
			}
			all = append(all, processDir(p, *dense)...)
			return nil
		})
	}()
	if code != 0 {
		os.Exit(code)
	}
	// the scratch module must be able to import verif/simrt
	modPath := filepath.Join(rootDir, "go.mod")
	mod, err := os.ReadFile(modPath)
	if err != nil {
		fmt.Fprintln(os.Stderr, "instrument:", err)
		os.Exit(2)
	}
	if !bytes.Contains(mod, []byte(simrtPath)) {
		mod = append(mod, []byte("\nrequire "+simrtPath+" v0.0.0\n\nreplace "+simrtPath+" => ../simrt\n")...)
		if err := os.WriteFile(modPath, mod, 0o644); err != nil {
			fmt.Fprintln(os.Stderr, "instrument:", err)
			os.Exit(2)
		}
	}
	var rel []string
	for _, p := range all {
		rel = append(rel, relBase(p))
	}
	sort.Strings(rel)
	out, _ := json.Marshal(map[string]interface{}{"files": rel, "rewrites": stats})
	fmt.Println(string(out))
}
