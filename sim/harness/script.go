package harness

import (
	"fmt"
	"strconv"
	"time"

	"github.com/b2broker/simplefix-go/session"

	"verif/simrt"
)

// Script is the F-script scenario family: the real endpoint + DefaultHandler +
// Session + memory.Storage of one role, driven step by step by a scripted peer.
type Script struct {
	*Client
	Role   string // "acceptor" or "initiator": the role of the library side
	Acc    *AccSide
	Ini    *InitSide
	LibEnd *Conn
	Store  *Store
	HB     int
	Cfg    ScriptCfg
	// BaseTasks: ids of the library tasks that existed before the connection was made (the
	// acceptor's own goroutines); they may live as long as the acceptor serves
	BaseTasks map[string]bool
}

// Client is one scripted peer connection with its own identifiers and sequence numbers.
type Client struct {
	w      *World
	P      *Peer
	PeerID string // CompID the peer sends as 49
	LibID  string // CompID the peer sends as 56
	outSeq int    // last sequence number used by the peer
	Shape  func([]byte) []seg
}

// NewClient dials the acceptor of as and returns a scripted peer on the new connection.
//
//go:norace
func (w *World) NewClient(as *AccSide, name, peerID, libID string) *Client {
	cli, _ := as.L.Dial(name, -1, -1)
	c := &Client{w: w, P: NewPeer(w, cli, name), PeerID: peerID, LibID: libID}
	w.SettleNet(cli)
	return c
}

type ScriptCfg struct {
	Role         string
	HandlerBuf   int
	ConnBuf      int
	HBMin, HBMax int
	HeartBtInt   int // initiator's configured interval
	CloseTimeout time.Duration
	WriteTimeout time.Duration
	Approve      func(*session.LogonSettings) error
	Store        *Store
	Username     string
	Password     string
	OnAccSession func(*AccSession)
	BeforeRun    func(*InitSide)
	Shape        func([]byte) []seg
	Opts         func() *session.Opts
	NewCS        func() session.CounterStorage
}

//go:norace
func (w *World) NewScript(cfg ScriptCfg) *Script {
	sc := &Script{Client: &Client{w: w, Shape: cfg.Shape}, Role: cfg.Role, Cfg: cfg}
	if cfg.WriteTimeout == 0 {
		cfg.WriteTimeout = time.Minute
	}
	sc.Store = cfg.Store
	if sc.Store == nil {
		sc.Store = NewStore(w)
	}
	if cfg.Role == "acceptor" {
		sc.PeerID, sc.LibID = "PEER", "LIB"
		sc.Acc = w.StartAcceptor(AccCfg{HandlerBuf: cfg.HandlerBuf, WriteTimeout: cfg.WriteTimeout, HBMin: cfg.HBMin, HBMax: cfg.HBMax,
			CloseTimeout: cfg.CloseTimeout, Approve: cfg.Approve, Store: sc.Store, OnSession: cfg.OnAccSession, Opts: cfg.Opts, NewCS: cfg.NewCS})
		simrt.Settle()
		sc.BaseTasks = map[string]bool{}
		for _, t := range w.Sched.Alive() {
			sc.BaseTasks[t.ID] = true
		}
		cli, srv := sc.Acc.L.Dial("script", -1, -1)
		sc.LibEnd = srv
		sc.P = NewPeer(w, cli, "peer")
	} else {
		sc.PeerID, sc.LibID = "Server", "Client"
		a, b := w.Net.Pipe("script", -1, -1)
		sc.LibEnd = a
		sc.P = NewPeer(w, b, "peer")
		sc.Ini = w.StartInitiator(InitCfg{HandlerBuf: cfg.HandlerBuf, ConnBuf: cfg.ConnBuf, WriteDeadline: cfg.WriteTimeout, HeartBtInt: cfg.HeartBtInt,
			Sender: sc.LibID, Target: sc.PeerID, Username: cfg.Username, Password: cfg.Password, CloseTimeout: cfg.CloseTimeout, Store: sc.Store,
			BeforeRun: cfg.BeforeRun, Opts: cfg.Opts}, a)
	}
	sc.Settle()
	return sc
}

// Sess is the session under test (nil until the acceptor has accepted the connection).
//
//go:norace
func (sc *Script) Sess() *session.Session {
	if sc.Role == "acceptor" {
		if len(sc.Acc.Sess) == 0 {
			return nil
		}
		return sc.Acc.Sess[0].S
	}
	return sc.Ini.S
}

//go:norace
func (sc *Script) Logons() int {
	if sc.Role == "acceptor" {
		if len(sc.Acc.Sess) == 0 {
			return 0
		}
		return sc.Acc.Sess[0].Logons
	}
	return sc.Ini.Logons
}

//go:norace
func (sc *Script) LogoutEvents() int {
	if sc.Role == "acceptor" {
		if len(sc.Acc.Sess) == 0 {
			return 0
		}
		return sc.Acc.Sess[0].Logouts
	}
	return sc.Ini.Logouts
}

//go:norace
func (sc *Client) Settle() { sc.w.SettleNet(sc.P.C) }

//go:norace
func (sc *Client) NextSeq() int { sc.outSeq++; return sc.outSeq }

//go:norace
func (sc *Client) SetSeq(n int) { sc.outSeq = n }

//go:norace
func (sc *Client) LastSeq() int { return sc.outSeq }

// Msg builds a well-formed message from the peer with the next sequence number.
//
//go:norace
func (sc *Client) Msg(typ string, extra ...Field) []byte {
	return Build(AdminMsg(typ, sc.NextSeq(), sc.PeerID, sc.LibID, extra...), WireOpts{})
}

// MsgSeq is Msg with an explicit sequence number.
//
//go:norace
func (sc *Client) MsgSeq(typ string, seq int, extra ...Field) []byte {
	return Build(AdminMsg(typ, seq, sc.PeerID, sc.LibID, extra...), WireOpts{})
}

// Step injects raw bytes, lets the system settle at the current instant and
// returns what the library sent in response.
//
//go:norace
func (sc *Client) Step(raw []byte) []RxMsg {
	sc.P.SendShaped(raw, sc.Shape)
	sc.Settle()
	return sc.P.Take()
}

// LogonFields are the body fields of a Logon from the peer.
//
//go:norace
func LogonFields(hb int, method, user, pass string) []Field {
	fs := []Field{F(TagEncrypt, method), FI(TagHeartBtInt, hb)}
	if user != "" {
		fs = append(fs, F(TagUsername, user))
	}
	if pass != "" {
		fs = append(fs, F(TagPassword, pass))
	}
	return fs
}

// DoLogon completes a normal logon (both roles) and returns the library's messages so far.
//
//go:norace
func (sc *Script) DoLogon(hb int) []RxMsg {
	sc.HB = hb
	if sc.Role == "initiator" {
		hb = sc.Cfg.HeartBtInt
		sc.HB = hb
	}
	return sc.Step(sc.Msg("A", LogonFields(hb, "0", "", "")...))
}

//go:norace
func typesOf(ms []RxMsg) string {
	s := ""
	for _, m := range ms {
		s += m.Type
	}
	return s
}

//go:norace
func filterType(ms []RxMsg, typ string) []RxMsg {
	var out []RxMsg
	for _, m := range ms {
		if m.Type == typ {
			out = append(out, m)
		}
	}
	return out
}

//go:norace
func count(ms []RxMsg, typ string) int { return len(filterType(ms, typ)) }

// dropTimer removes timer-driven traffic (unsolicited Heartbeats, TestRequests)
// from a reply list: step-wise oracles other than C07/C08/C09 allow it anytime.
//
//go:norace
func dropTimer(ms []RxMsg) []RxMsg {
	var out []RxMsg
	for _, m := range ms {
		if m.Type == "1" {
			continue
		}
		if m.Type == "0" {
			if _, has := Get(m.Raw, TagTestReqID); !has {
				continue
			}
		}
		out = append(out, m)
	}
	return out
}

// checkFraming flags messages whose BodyLength/CheckSum do not match their bytes.
// That is C01's subject: here it only makes the run inconclusive.
//
//go:norace
func (sc *Client) checkFraming(ms []RxMsg) bool {
	for _, m := range ms {
		l, s := FrameOK(m.Raw)
		if !l || !s {
			sc.w.Inconclusive = "framing-anomaly"
			sc.w.Logf("anomaly", "framing %v %v: %s", l, s, Pretty(m.Raw))
			return false
		}
	}
	return true
}

// Teardown ends the scenario: close everything and let goroutines exit.
//
//go:norace
func (sc *Script) Teardown() {
	if sc.Role == "acceptor" {
		sc.P.C.CloseNow()
		sc.Acc.A.Close()
	} else {
		sc.Ini.I.Close()
		sc.P.C.CloseNow()
	}
	simrt.Sleep(50 * time.Millisecond)
	simrt.Settle()
}

//go:norace
func itoa(n int) string { return strconv.Itoa(n) }

//go:norace
func short(b []byte) string {
	s := Pretty(b)
	if len(s) > 160 {
		s = s[:160] + fmt.Sprintf("...(%d bytes)", len(b))
	}
	return s
}
