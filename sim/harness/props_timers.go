package harness

import (
	"fmt"
	"time"

	simplefixgo "github.com/b2broker/simplefix-go"
	"github.com/b2broker/simplefix-go/session"
	fixgen "github.com/b2broker/simplefix-go/tests/fix44"

	"verif/simrt"
)

func init() {
	Register(&PropDef{ID: "C08", Run: c08, MaxSim: 48 * time.Hour, MaxSteps: 3000000})
	Register(&PropDef{ID: "C09", Run: c09, MaxSim: 48 * time.Hour, MaxSteps: 3000000})
}

// C09: intervals for which max(1, N/20) is the same in integer and real arithmetic (N <= 20, 40, 60)
var hbChoices = []int{1, 2, 3, 4, 5, 6, 7, 8, 9, 10, 11, 12, 13, 15, 16, 17, 19, 20, 40, 60}

// C08's bounds involve no such division: any interval within the limits
var hbChoicesAny = []int{1, 2, 3, 4, 5, 6, 7, 8, 9, 10, 11, 12, 13, 14, 15, 17, 19, 20, 21, 23, 25, 27, 29, 30, 33, 37, 40, 45, 50, 55, 59, 60}

func timerSetup(w *World, choices []int) (sc *Script, s *session.Session, n int, logonAt time.Time) {
	role := []string{"acceptor", "initiator"}[w.W.Draw(2)]
	buf := []int{0, 1, 10}[w.W.Draw(3)]
	n = choices[w.W.Draw(len(choices))]
	w.Cfg("role", role)
	w.Cfg("buf", buf)
	w.Cfg("N", n)
	store := NewStore(w)
	store.Quiet = true
	opts := NewOpts
	if w.W.Chance(1, 2) {
		opts = NewOptsWithSequenceReset // the optional builder changes how inbound SequenceReset is treated
		w.Cfg("sequence_reset_builder", true)
	}
	sc = w.NewScript(ScriptCfg{Role: role, HandlerBuf: buf, ConnBuf: buf, HBMin: 1, HBMax: 60, HeartBtInt: n, CloseTimeout: time.Second, Store: store, Opts: opts})
	// a logon at a non-round instant, so that tick phases vary
	simrt.Sleep(time.Duration(w.W.Draw(1000)) * time.Millisecond)
	sc.Settle()
	logonAt = time.Now()
	sc.DoLogon(n)
	s = sc.Sess()
	if s == nil || !s.IsLogged() {
		w.Inconclusive = "logon-failed"
		return sc, nil, n, logonAt
	}
	return
}

// c08: send times placed around the heartbeat deadline; gap invariants on the
// simulated arrival times of outbound messages (zero transport latency).
func c08(w *World) {
	sc, s, n, logonAt := timerSetup(w, hbChoicesAny)
	if s == nil {
		return
	}
	N := time.Duration(n) * time.Second
	slack := N / 10
	lastOut := func() time.Time {
		ms := sc.P.Msgs()
		return ms[len(ms)-1].At
	}
	// peer keep-alive so that the inbound timer never interferes: a Heartbeat at drawn
	// intervals below N (inbound traffic must not influence the outbound timer)
	stop := false
	var silentUntil time.Time
	lastKeep := time.Now() // the Logon was the last inbound message
	simrt.GoHarness("keepalive", func() {
		for !stop {
			simrt.Sleep(N*3/10 + time.Duration(w.W.Draw(int(N*6/10/time.Millisecond)))*time.Millisecond)
			if stop || sc.P.EOF {
				return
			}
			if time.Now().Before(silentUntil) {
				continue // the peer is silent for a while: the library's TestRequest goes unanswered
			}
			sc.P.Send(sc.Msg("0"))
			lastKeep = time.Now()
		}
	})
	tol := n / 20
	if tol < 1 {
		tol = 1
	}
	T := time.Duration(n+tol) * time.Second
	sendApp := func(i int) {
		_ = s.Send(fixgen.NewMarketDataRequest().SetMDReqID("a" + itoa(i)).SetSubscriptionRequestType("1").SetMarketDepth(1))
	}
	var failed []failedSend
	// an application handler that refuses the one message it is told to refuse
	refuseID := ""
	s.Router.HandleOutgoing(fixgen.MsgTypeMarketDataRequest, func(m simplefixgo.SendingMessage) bool {
		if md, ok := m.(*fixgen.MarketDataRequest); ok && refuseID != "" && md.MDReqID() == refuseID {
			refuseID = ""
			return false
		}
		return true
	})
	actions := 3 + w.W.Draw(w.Deep(20))
	for i := 0; i < actions && !sc.P.EOF; i++ {
		d := lastOut().Add(N) // the running deadline
		switch w.W.Pick(3, 3, 3, 3, 2, 2, 2, 3, 3, 3) {
		case 9:
			// a send that fails somewhere inside the period (the store cannot save it, or an outgoing
			// handler refuses it): nothing is transmitted, so the deadline of the last real transmission stands
			sleepUntil(d.Add(-time.Duration(1+w.W.Draw(int(N/time.Millisecond)-1)) * time.Millisecond))
			before := len(sc.P.Msgs())
			kind := "failed-save"
			if w.W.Chance(1, 2) {
				sc.Cfg.Store.FailType = fixgen.MsgTypeMarketDataRequest
			} else {
				kind = "refused-send"
				refuseID = "a" + itoa(i)
			}
			at := time.Now()
			sendApp(i)
			sc.Settle()
			sc.Cfg.Store.FailType, refuseID = "", ""
			if n := len(filterType(sc.P.Msgs()[before:], fixgen.MsgTypeMarketDataRequest)); n == 0 {
				failed = append(failed, failedSend{at, kind})
				w.Probe("failed_send_inside_period")
				w.Probe(kind)
			}
		case 8:
			// outbound messages the application did not send: an echo, a Reject, a retransmission —
			// each of them postpones the next unsolicited Heartbeat by a full interval
			sleepUntil(d.Add(-time.Duration(1+w.W.Draw(int(N/time.Millisecond)-1)) * time.Millisecond))
			switch w.W.Draw(3) {
			case 0:
				sc.P.Send(sc.Msg("1", F(TagTestReqID, "c8-"+itoa(i))))
			case 1:
				sc.P.Send(Build(AdminMsg("0", sc.NextSeq(), sc.PeerID, sc.LibID), WireOpts{BadSum: true}))
			default:
				sc.P.Send(sc.Msg("2", FI(TagBeginSeqNo, 1), FI(TagEndSeqNo, 1)))
			}
			lastKeep = time.Now()
			w.Probe("library_originated_outbound")
		case 7:
			// the peer goes silent long enough for the library's TestRequest to be outstanding, and comes
			// back before the disconnect: the session is still logged on and must keep transmitting
			// (measured from the last inbound message: TestRequest in [T, T+T/10], disconnect not before 2T)
			d0 := T + T/10 + time.Millisecond + time.Duration(w.W.Draw(int((T-T/10-20*time.Millisecond)/time.Millisecond)))*time.Millisecond
			silentUntil = lastKeep.Add(d0)
			sleepUntil(silentUntil)
			if !sc.P.EOF {
				sc.P.Send(sc.Msg("0", F(TagTestReqID, "1")))
				lastKeep = time.Now()
			}
			w.Probe("peer_silent_testrequest_outstanding")
		case 0:
			sleepUntil(d.Add(-slack - time.Millisecond))
			sendApp(i)
			w.Probe("send_before_last_tick")
		case 1:
			sleepUntil(d.Add(-time.Millisecond))
			sendApp(i)
			w.Probe("send_1ms_before_deadline")
		case 2:
			sleepUntil(d)
			sendApp(i)
			w.Probe("send_at_deadline")
		case 3:
			sleepUntil(d.Add(time.Millisecond))
			sendApp(i)
			w.Probe("send_1ms_after_deadline")
		case 4:
			k := 2 + w.W.Draw(6)
			sleepUntil(d.Add(-time.Duration(w.W.Draw(int(N/time.Millisecond))) * time.Millisecond))
			for j := 0; j < k; j++ {
				sendApp(i*100 + j)
			}
			w.Probe("burst")
		case 5:
			periods := 3 + w.W.Draw(48)
			simrt.Sleep(time.Duration(periods) * N)
			if periods >= 30 {
				w.Probe("idle_30_periods")
			}
			w.Probe("idle_stretch")
		case 6:
			simrt.Sleep(time.Duration(w.W.Draw(int(2*N/time.Millisecond))) * time.Millisecond)
			sendApp(i)
		}
		sc.Settle()
	}
	// observe one more full period
	simrt.Sleep(N + slack + time.Millisecond)
	sc.Settle()
	end := time.Now()
	stop = true
	if sc.P.EOF {
		w.Inconclusive = "disconnected"
		return
	}
	ms := sc.P.Msgs()
	if !sc.checkFraming(ms) {
		return
	}
	// from the instant the session logged on
	reported := map[string]bool{}
	prev, prevType := logonAt, "logon"
	for i := 0; i <= len(ms); i++ {
		var next time.Time
		if i < len(ms) {
			next = ms[i].At
			if next.Before(logonAt) {
				continue
			}
		} else {
			next = end
		}
		if gap := next.Sub(prev); gap > N+slack {
			// a send that failed inside the gap names the circumstance (nothing was transmitted by it)
			key := fmt.Sprintf("N=%d", n)
			for _, kind := range []string{"failed-save", "refused-send"} { // a refusal anywhere in the gap names it
				for _, f := range failed {
					if f.kind == kind && !f.at.Before(prev) && !f.at.After(next) {
						key = "after-" + f.kind
					}
				}
			}
			if !reported[key] {
				reported[key] = true
				w.Violate("silent-too-long", key, fmt.Sprintf("nothing was transmitted for %v after the %s at %s; N=%ds, bound %v", gap, prevType, stamp(prev, w), n, N+slack))
			}
		}
		if i < len(ms) {
			prev, prevType = next, ms[i].Type
		}
	}
	for i, m := range ms {
		if m.Type != "0" {
			continue
		}
		if _, has := Get(m.Raw, TagTestReqID); has {
			continue
		}
		// unsolicited Heartbeat: no outbound message at a strictly earlier instant within (t-N, t)
		for j := i - 1; j >= 0; j-- {
			dt := m.At.Sub(ms[j].At)
			if dt >= N {
				break
			}
			if dt > 0 {
				w.Violate("heartbeat-too-early", fmt.Sprintf("N=%d", n), fmt.Sprintf("unsolicited Heartbeat at %s only %v after the %s at %s; N=%ds", stamp(m.At, w), dt, ms[j].Type, stamp(ms[j].At, w), n))
				break
			}
		}
		w.Probe("timer_heartbeat")
	}
	sc.Teardown()
}

type failedSend struct {
	at   time.Time
	kind string
}

func sleepUntil(t time.Time) {
	if d := time.Until(t); d > 0 {
		simrt.Sleep(d)
	} else {
		simrt.Yield("harness.now")
	}
}

func stamp(t time.Time, w *World) string { return t.Sub(w.T0).String() }

// c09: inbound arrival patterns around both deadlines; timeline oracle.
func c09(w *World) {
	sc, s, n, _ := timerSetup(w, hbChoices)
	if s == nil {
		return
	}
	tol := n / 20
	if tol < 1 {
		tol = 1
	}
	T := time.Duration(n+tol) * time.Second
	slack := T / 10
	pattern := []string{"silence", "answer-in-second-period", "ends-just-before-first", "ends-just-after-first", "steady", "steady"}[w.W.Draw(6)]
	if pattern == "silence" && w.W.Chance(1, 4) {
		pattern = "silence-probe-unsendable"
	}
	w.Cfg("pattern", pattern)
	w.State(pattern)
	sc.Settle()
	lastIn := time.Now() // the Logon was the last inbound message
	discAt := func() (time.Time, bool) { return sc.P.EOFAt, sc.P.EOF }
	probes := func() []RxMsg { return filterType(sc.P.Msgs(), "1") }
	appDisc := func() int {
		if sc.Role == "acceptor" {
			a := sc.Acc.Sess[0]
			return a.Disconnect + a.Stopped
		}
		return sc.Ini.Disconnect + sc.Ini.Stopped
	}

	switch pattern {
	case "steady":
		periods := 20 + w.W.Draw(281)
		prevShort, shortThenFull := false, false
		steadyOnly := -1 // -1: mixed types; otherwise one message type only ("any type" means every type on its own)
		if w.W.Chance(1, 2) {
			steadyOnly = w.W.Draw(6)
			periods = 20 + w.W.Draw(40)
		}
		for i := 0; i < periods && !sc.P.EOF; i++ {
			// something at least every N seconds, of any type
			gap := time.Duration(n)*time.Second - time.Duration(w.W.Draw(n*500))*time.Millisecond
			switch w.W.Draw(6) {
			case 0, 1:
				gap = time.Duration(n) * time.Second
			case 2:
				// two messages close together, then the full N: the deadline counts from the later one
				gap = time.Duration(1+w.W.Draw(int(T/5/time.Millisecond))) * time.Millisecond
				shortThenFull = true
			}
			if prevShort {
				gap = time.Duration(n) * time.Second
			}
			prevShort, shortThenFull = shortThenFull, false
			simrt.Sleep(gap)
			kind := w.W.Draw(6)
			if steadyOnly >= 0 {
				kind = steadyOnly
			}
			switch kind {
			case 0:
				sc.P.Send(sc.Msg("0"))
			case 1:
				sc.P.Send(sc.Msg("1", F(TagTestReqID, "k"+itoa(i))))
			case 2:
				sc.P.Send(sc.Msg("D", F(11, "o"+itoa(i))))
			case 3:
				// SequenceReset-GapFill announcing exactly the next number: sequence numbers stay in step
				sc.P.Send(sc.Msg("4", F(123, "Y"), FI(36, sc.LastSeq()+1)))
			case 4:
				// a peer whose messages have no usable sequence number is talking all the same: whatever else
				// the session makes of such a message, it is inbound traffic and the peer is alive
				fields := AdminMsg("D", sc.LastSeq()+1, sc.PeerID, sc.LibID, F(11, "g"+itoa(i)))
				if w.W.Chance(1, 2) {
					fields = dropField(fields, TagMsgSeqNum)
				} else {
					txt, _ := NonNumeric(w.W, sc.LastSeq()+1)
					setField(fields, TagMsgSeqNum, txt)
				}
				sc.P.Send(Build(fields, WireOpts{}))
				w.Probe("steady_unusable_seqnum")
			default:
				sc.P.Send(sc.Msg("ZZ"))
			}
			sc.Settle()
		}
		if ps := probes(); len(ps) != 0 {
			w.Violate("live-peer-probed", fmt.Sprintf("N=%d", n), fmt.Sprintf("a peer that sent something at least every %ds was sent a TestRequest at %s", n, stamp(ps[0].At, w)))
		}
		if sc.P.EOF || appDisc() != 0 {
			w.Violate("live-peer-disconnected", fmt.Sprintf("N=%d", n), fmt.Sprintf("a peer that sent something at least every %ds was disconnected", n))
		}
		w.Probe("steady_periods")

	case "silence-probe-unsendable":
		// Fault at a particular point: the store cannot save the TestRequest when the first deadline
		// fires, so no probe reaches the wire. The peer is silent all the same, and after a second period
		// of silence the session has to give the connection up (it must not wait for a probe it could
		// never send, nor start the two periods afresh).
		sc.Cfg.Store.FailType = "1"
		w.Fault("store_refuses_testrequest")
		simrt.Sleep(lastIn.Add(2*T - time.Millisecond).Sub(time.Now()))
		sc.Settle()
		if sc.P.EOF {
			w.Violate("disconnected-too-early", fmt.Sprintf("N=%d/probe-unsendable", n), fmt.Sprintf("connection closed %v after the last inbound message, before two periods T=%v had passed", sc.P.EOFAt.Sub(lastIn), T))
			break
		}
		simrt.Sleep(lastIn.Add(2*T + 2*slack + time.Millisecond).Sub(time.Now()))
		sc.Settle()
		if sc.Cfg.Store.FailType != "" {
			w.Inconclusive = "fault-not-reached" // no TestRequest was ever built: the plain silence pattern reports that
			break
		}
		if _, gone := discAt(); !gone {
			w.Violate("silent-peer-not-disconnected", fmt.Sprintf("N=%d/probe-unsendable", n), fmt.Sprintf("connection still open %v after the last inbound message although the peer was silent for two periods (T=%v); the TestRequest could not be saved", time.Since(lastIn), T))
			break
		}
		if appDisc() == 0 {
			w.Violate("no-disconnect-notification", sc.Role, "the connection was closed for silence but neither EventDisconnect nor OnStopped was raised")
		}
		w.Probe("disconnected_for_silence_probe_unsendable")

	default:
		// ---- first period: silence until the TestRequest ----
		if pattern == "ends-just-before-first" {
			simrt.Sleep(T - time.Millisecond)
			sc.P.Send(sc.Msg("0"))
			sc.Settle()
			lastIn = time.Now()
			if len(probes()) != 0 {
				w.Violate("probe-too-early", fmt.Sprintf("N=%d", n), fmt.Sprintf("TestRequest at %s, before %v of silence had passed", stamp(probes()[0].At, w), T))
			}
			w.Probe("inbound_1ms_before_first_deadline")
		}
		if w.W.Chance(1, 3) {
			// a short burst right before the silence: the first period counts from its last message
			for k := 0; k < 1+w.W.Draw(3); k++ {
				simrt.Sleep(time.Duration(1+w.W.Draw(int(T/5/time.Millisecond))) * time.Millisecond)
				sc.P.Send(sc.Msg("0"))
				sc.Settle()
				lastIn = time.Now()
			}
			if len(probes()) != 0 {
				w.Violate("probe-too-early", fmt.Sprintf("N=%d", n), "TestRequest sent while the peer was talking")
			}
			w.Probe("burst_before_silence")
		}
		simrt.Sleep(lastIn.Add(T + slack + time.Millisecond).Sub(time.Now()))
		sc.Settle()
		ps := probes()
		if len(ps) == 0 {
			w.Violate("silent-peer-not-probed", fmt.Sprintf("N=%d", n), fmt.Sprintf("no TestRequest within %v of silence (T=%v)", T+slack, T))
			break
		}
		t1 := ps[0].At
		if d := t1.Sub(lastIn); d < T {
			w.Violate("probe-too-early", fmt.Sprintf("N=%d", n), fmt.Sprintf("TestRequest %v after the last inbound message, T=%v", d, T))
		} else if d > T+slack {
			w.Violate("probe-too-late", fmt.Sprintf("N=%d", n), fmt.Sprintf("TestRequest %v after the last inbound message, bound %v", d, T+slack))
		}
		if len(ps) > 1 {
			w.Violate("probe-repeated", "", "more than one TestRequest within the first period")
		}
		if sc.P.EOF {
			w.Violate("disconnected-too-early", "first-period", "disconnected before any TestRequest period elapsed")
			break
		}
		w.Probe("testrequest_sent")
		// ---- second period ----
		switch pattern {
		case "silence", "ends-just-before-first":
			simrt.Sleep(t1.Add(T + slack + time.Millisecond).Sub(time.Now()))
			sc.Settle()
			t2, gone := discAt()
			if !gone {
				w.Violate("silent-peer-not-disconnected", fmt.Sprintf("N=%d", n), fmt.Sprintf("connection still open %v after an unanswered TestRequest (T=%v)", time.Since(t1), T))
				break
			}
			if d := t2.Sub(t1); d < T {
				w.Violate("disconnected-too-early", fmt.Sprintf("N=%d", n), fmt.Sprintf("connection closed %v after the TestRequest, T=%v", d, T))
			} else if d > T+slack {
				w.Violate("disconnect-too-late", fmt.Sprintf("N=%d", n), fmt.Sprintf("connection closed %v after the TestRequest, bound %v", d, T+slack))
			}
			if appDisc() == 0 {
				w.Violate("no-disconnect-notification", sc.Role, "the connection was closed for silence but neither EventDisconnect nor OnStopped was raised")
			}
			if len(probes()) > 1 {
				w.Violate("probe-repeated", "second-period", "a second TestRequest was sent instead of disconnecting")
			}
			w.Probe("disconnected_for_silence")
		case "ends-just-after-first", "answer-in-second-period":
			var a time.Duration
			if pattern == "ends-just-after-first" {
				a = time.Millisecond
			} else {
				a = time.Duration(1+w.W.Draw(int((T-2*time.Millisecond)/time.Millisecond))) * time.Millisecond
				if w.W.Chance(1, 5) {
					a = T - time.Millisecond
				}
			}
			simrt.Sleep(t1.Add(a).Sub(time.Now()))
			if sc.P.EOF {
				w.Violate("disconnected-too-early", fmt.Sprintf("N=%d", n), fmt.Sprintf("connection closed %v after the TestRequest, T=%v", time.Since(t1), T))
				break
			}
			switch w.W.Draw(5) {
			case 0:
				sc.P.Send(sc.Msg("0", F(TagTestReqID, "1")))
			case 1:
				sc.P.Send(sc.Msg("D", F(11, "late")))
			case 2:
				sc.P.Send(sc.Msg("4", F(123, "Y"), FI(36, sc.LastSeq()+1)))
			case 3:
				sc.P.Send(sc.Msg("ZZ"))
			default:
				sc.P.Send(sc.Msg("1", F(TagTestReqID, "back")))
			}
			sc.Settle()
			ta := time.Now()
			// no disconnect before ta+T; the next TestRequest not before ta+T
			simrt.Sleep(T - time.Millisecond)
			sc.Settle()
			if sc.P.EOF {
				w.Violate("answered-probe-disconnected", fmt.Sprintf("N=%d", n), fmt.Sprintf("peer answered %v after the TestRequest but was disconnected %v later (T=%v)", a, sc.P.EOFAt.Sub(ta), T))
				break
			}
			if len(probes()) > 1 {
				w.Violate("probe-too-early", "after-answer", fmt.Sprintf("a second TestRequest %v after the peer's answer, T=%v", probes()[1].At.Sub(ta), T))
			}
			w.Probe("answer_cancelled_disconnect")
			// the answer cancelled the pending disconnect: if the peer now falls silent again the
			// cycle starts over — a new TestRequest first, the disconnect only a full period later
			simrt.Sleep(ta.Add(T + slack + time.Millisecond).Sub(time.Now()))
			sc.Settle()
			ps2 := probes()
			if len(ps2) < 2 {
				if sc.P.EOF {
					w.Violate("answered-probe-disconnected", fmt.Sprintf("N=%d/without-second-probe", n), fmt.Sprintf("after the peer answered the TestRequest and fell silent again the connection was closed %v after the answer without a new TestRequest (T=%v)", sc.P.EOFAt.Sub(ta), T))
				} else {
					w.Violate("silent-peer-not-probed", fmt.Sprintf("N=%d/second-cycle", n), fmt.Sprintf("no new TestRequest within %v of renewed silence", T+slack))
				}
				break
			}
			if sc.P.EOF && sc.P.EOFAt.Before(ps2[1].At.Add(T)) {
				w.Violate("disconnected-too-early", fmt.Sprintf("N=%d/second-cycle", n), fmt.Sprintf("connection closed %v after the second TestRequest, T=%v", sc.P.EOFAt.Sub(ps2[1].At), T))
			}
			w.Probe("second_cycle_checked")
		}
	}
	if !sc.P.EOF {
		sc.Teardown()
	}
}
