package harness

import "math/big"

// NonNumeric draws a text that is not the decimal representation of any integer a 64-bit parser
// may return: letters, fractions, exponents, a lone sign, nothing at all, blanks, digit separators,
// and digit strings too long for 64 bits that wrap to the acceptable value v modulo 2^64 or 2^32*2^32.
func NonNumeric(t *Tape, v int) (text, kind string) {
	wrap := func(bits uint) string {
		x := new(big.Int).Lsh(big.NewInt(1), bits)
		return x.Add(x, big.NewInt(int64(v))).String()
	}
	switch t.Draw(12) {
	case 0:
		return itoa(v) + "x", "trailing-letter"
	case 1:
		return "3O", "letter-o"
	case 2:
		return "one", "word"
	case 3:
		return itoa(v) + ".5", "fraction"
	case 4:
		return "-", "lone-minus"
	case 5:
		return "+", "lone-plus"
	case 6:
		return "1e1", "exponent"
	case 7:
		return "0x1E", "hex"
	case 8:
		return "1_0", "separator"
	case 9:
		return wrap(64), "wraps-mod-2^64"
	case 10:
		return wrap(65), "wraps-mod-2^65"
	default:
		return "x" + itoa(v), "leading-letter"
	}
}
