package harness

import (
	"runtime"
	"time"

	"verif/simrt"
)

func goVersion() string { return runtime.Version() }

func init() {
	Register(&PropDef{ID: "SMOKE", Run: smoke, MaxSim: time.Hour})
}

// smoke: a real initiator and a real acceptor log on over simnet and exchange
// heartbeats for a while. Used by the determinism self-test.
func smoke(w *World) {
	hb := 1 + w.W.Draw(3)
	buf := []int{0, 1, 10}[w.W.Draw(3)]
	acc := w.StartAcceptor(AccCfg{HandlerBuf: buf, WriteTimeout: time.Minute})
	cli, srv := acc.L.Dial("pair", 4096, 4096)
	_ = srv
	ini := w.StartInitiator(InitCfg{HandlerBuf: buf, ConnBuf: buf, WriteDeadline: time.Minute, HeartBtInt: hb}, cli)
	w.Cfg("hb", hb)
	w.Cfg("buf", buf)
	simrt.Sleep(time.Duration(5+w.W.Draw(10)) * time.Second)
	if !ini.S.IsLogged() {
		w.Violate("smoke", "initiator-not-logged", "initiator session is not logged on after 5s")
	}
	if len(acc.Sess) != 1 || !acc.Sess[0].S.IsLogged() {
		w.Violate("smoke", "acceptor-not-logged", "acceptor session is not logged on after 5s")
	}
	ini.I.Close()
	acc.A.Close()
	simrt.Sleep(3 * time.Second)
	for _, t := range w.Sched.Alive() {
		if !t.Harness {
			w.Logf("alive", "%s", t)
		}
	}
}
