package harness

import (
	"bytes"
	"fmt"
	"sort"
	"time"

	simplefixgo "github.com/b2broker/simplefix-go"
	"github.com/b2broker/simplefix-go/session"
	"github.com/b2broker/simplefix-go/session/messages"
	fixgen "github.com/b2broker/simplefix-go/tests/fix44"

	"verif/simrt"
)

func init() {
	Register(&PropDef{ID: "C19", Run: c19, MaxSim: 2 * time.Hour})
}

type hcall struct {
	ev      uint64
	handler int
	dir     string // "out" / "in"
	all     bool
	typ     string
	seq     int
	bytes   []byte
	refused bool
}

type hdef struct {
	late   bool // registered while traffic is already flowing (from inside a handler or by another task)
	modify bool
	id     int
	dir    string
	all    bool
	typ    string
	refuse map[int]bool // call numbers (1-based) at which this handler refuses
	calls  int
}

type sendRec struct {
	task  int
	typ   string
	seq   int
	err   error
	begin uint64
	end   uint64
}

// c19: fault-injecting MessageStorage (fail on the k-th Save), generated handler sets
// with accept/refuse patterns, concurrent senders; call log vs. wire.
func c19(w *World) {
	role := []string{"acceptor", "initiator"}[w.W.Draw(2)]
	buf := []int{0, 1, 10}[w.W.Draw(3)]
	hb := []int{1, 2, 30}[w.W.Draw(3)]
	w.Cfg("role", role)
	w.Cfg("buf", buf)
	w.Cfg("hb", hb)
	store := NewStore(w)
	sc := w.NewScript(ScriptCfg{Role: role, HandlerBuf: buf, ConnBuf: buf, HBMin: 1, HBMax: 60, HeartBtInt: hb, CloseTimeout: time.Second, Store: store})
	sc.DoLogon(hb)
	s := sc.Sess()
	if s == nil || !s.IsLogged() {
		w.Inconclusive = "logon-failed"
		return
	}
	var router session.Handler = s.Router

	// ---- faults: fail the k-th Save from now on ----
	base := store.nsave
	nf := w.F.Pick(3, 2, 1)
	for i := 0; i < nf; i++ {
		store.FailSave[base+1+w.F.Draw(12)] = true
	}

	// ---- handlers ----
	var log []hcall
	var defs []*hdef
	outTypes := []string{"0", "V", "D"}
	mk := func(dir string, all bool, typ string) *hdef {
		d := &hdef{id: len(defs), dir: dir, all: all, typ: typ, refuse: map[int]bool{}}
		if w.F.Chance(1, 3) {
			for k := 0; k < 1+w.F.Draw(2); k++ {
				d.refuse[1+w.F.Draw(8)] = true
			}
		}
		defs = append(defs, d)
		return d
	}
	regPos := map[int]int{} // handler id -> position in registration order
	// two registrations may come from different tasks (from inside a dispatch and from the late-
	// registration task): taking the position and registering with the library must be one step,
	// or the model's order and the library's can differ (a false alarm of this oracle once, in the
	// thorough tier under the priority policy)
	var regMu simrt.Mutex
	regOut := func(d *hdef) {
		regMu.Lock()
		defer regMu.Unlock()
		regPos[d.id] = len(regPos)
		mt := d.typ
		if d.all {
			mt = simplefixgo.AllMsgTypes
		}
		router.HandleOutgoing(mt, func(m simplefixgo.SendingMessage) bool {
			simrt.Yield("harness.outHandler")
			d.calls++
			if d.modify {
				// a handler may modify the message ("this may be required for modifying messages before
				// sending"): what it and the handlers after it see must still be what is transmitted
				if md, ok := m.(*fixgen.MarketDataRequest); ok {
					md.SetMDUpdateType(itoa(d.calls % 2))
					w.Probe("handler_modified_message")
				}
			}
			b, _ := m.ToBytes()
			seq := 0
			if hbld := m.HeaderBuilder(); hbld != nil {
				seq = hbld.MsgSeqNum()
			}
			ref := d.refuse[d.calls]
			if ref {
				w.Fault("handler_refused_outgoing")
			}
			log = append(log, hcall{ev: w.Sched.NextSeq(), handler: d.id, dir: "out", all: d.all, typ: m.MsgType(), seq: seq, bytes: append([]byte(nil), b...), refused: ref})
			return !ref
		})
	}
	regIn := func(d *hdef) {
		regMu.Lock()
		defer regMu.Unlock()
		regPos[d.id] = len(regPos)
		mt := d.typ
		if d.all {
			mt = simplefixgo.AllMsgTypes
		}
		router.HandleIncoming(mt, func(b []byte) bool {
			simrt.Yield("harness.inHandler")
			d.calls++
			ref := d.refuse[d.calls]
			if ref {
				w.Fault("handler_refused_incoming")
			}
			log = append(log, hcall{ev: w.Sched.NextSeq(), handler: d.id, dir: "in", all: d.all, typ: MsgType(b), bytes: append([]byte(nil), b...), refused: ref})
			return !ref
		})
	}
	nAllOut, nTypOut := w.W.Draw(4), w.W.Draw(5)
	nAllIn, nTypIn := w.W.Draw(4), w.W.Draw(5)
	// registration in a generated order (all-types and per-type interleaved)
	var regs []func()
	for i := 0; i < nAllOut; i++ {
		d := mk("out", true, "")
		d.modify = w.W.Chance(1, 2)
		regs = append(regs, func() { regOut(d) })
	}
	for i := 0; i < nTypOut; i++ {
		d := mk("out", false, outTypes[w.W.Draw(len(outTypes))])
		regs = append(regs, func() { regOut(d) })
	}
	// "2" and "A" have handlers of the session itself ahead of the application's: those must pass the message on
	inTypes := []string{"0", "1", "D", "V", "2", "A", "5"}
	for i := 0; i < nAllIn; i++ {
		d := mk("in", true, "")
		regs = append(regs, func() { regIn(d) })
	}
	for i := 0; i < nTypIn; i++ {
		d := mk("in", false, inTypes[w.W.Draw(len(inTypes))])
		regs = append(regs, func() { regIn(d) })
	}
	// register in a drawn order
	for len(regs) > 0 {
		k := w.W.Draw(len(regs))
		regs[k]()
		regs = append(regs[:k], regs[k+1:]...)
	}

	// registrations that happen while messages are being dispatched
	lateInside := w.W.Chance(1, 3)
	lateTask := w.W.Chance(1, 3)
	lateDone := false
	if lateInside {
		router.HandleOutgoing(simplefixgo.AllMsgTypes, func(m simplefixgo.SendingMessage) bool {
			if !lateDone {
				lateDone = true
				d := mk("out", true, "")
				d.late, d.refuse = true, map[int]bool{}
				regOut(d) // a handler registers another one in the middle of a dispatch
				w.Probe("registered_during_dispatch")
			}
			return true
		})
	}
	sc.P.Take()
	wireBefore := len(sc.P.Msgs())

	// ---- workload ----
	var sends []*sendRec
	nTasks := 1 + w.W.Draw(4)
	perTask := 1 + w.W.Draw(w.Deep(5))
	done := 0
	for t := 0; t < nTasks; t++ {
		t := t
		simrt.GoHarness("sender", func() {
			for i := 0; i < perTask; i++ {
				var m messages.Message
				typ := outTypes[w.W.Draw(len(outTypes))]
				switch typ {
				case "0":
					m = fixgen.NewHeartbeat().SetTestReqID(fmt.Sprintf("s%d-%d", t, i))
				case "V":
					m = fixgen.NewMarketDataRequest().SetMDReqID(fmt.Sprintf("v%d-%d", t, i)).SetSubscriptionRequestType("1").SetMarketDepth(1)
				default:
					m = fixgen.NewMarketDataRequest().SetMDReqID(fmt.Sprintf("d%d-%d", t, i)).SetSubscriptionRequestType("0").SetMarketDepth(2)
					typ = "V"
				}
				r := &sendRec{task: t, typ: typ, begin: w.Sched.NextSeq()}
				r.err = s.Send(m)
				r.end = w.Sched.NextSeq()
				r.seq = m.HeaderBuilder().MsgSeqNum()
				sends = append(sends, r)
				if w.W.Chance(1, 4) {
					simrt.Sleep(time.Duration(w.W.Draw(700)) * time.Millisecond)
				}
			}
			done++
		})
	}
	if lateTask {
		simrt.GoHarness("late-registration", func() {
			simrt.Sleep(time.Duration(w.W.Draw(300)) * time.Millisecond)
			d := mk("out", true, "")
			d.late, d.refuse = true, map[int]bool{}
			regOut(d)
			d2 := mk("in", true, "")
			d2.late, d2.refuse = true, map[int]bool{}
			regIn(d2)
			w.Probe("registered_during_traffic")
		})
	}
	// inbound traffic meanwhile
	nIn := w.W.Draw(w.Deep(6))
	var inbound [][]byte
	for i := 0; i < nIn; i++ {
		var raw []byte
		switch w.W.Draw(8) {
		case 7:
			// a damaged administrative message (the session rejects it; the application's handlers for the
			// type are offered the bytes all the same). Logout only in this form: a valid one would end the session
			typ := []string{"5", "0", "1", "2", "A"}[w.W.Draw(5)]
			raw = Build(AdminMsg(typ, sc.NextSeq(), sc.PeerID, sc.LibID), WireOpts{BadSum: true})
			w.Probe("inbound_damaged_admin")
		case 5:
			// a ResendRequest for numbers never sent: nothing is retransmitted, the application's handlers
			// for the type still get the message
			raw = sc.Msg("2", FI(TagBeginSeqNo, 9000+i), FI(TagEndSeqNo, 9001+i))
			w.Probe("inbound_resendrequest_beyond")
		case 6:
			raw = sc.Msg("A", LogonFields(hb, "0", "", "")...) // a Logon while logged on: rejected, and still offered
			w.Probe("inbound_second_logon")
		case 0:
			raw = sc.Msg("0")
		case 1:
			raw = sc.Msg("1", F(TagTestReqID, "in"+itoa(i)))
		case 2:
			raw = sc.Msg("D", F(11, "ord"+itoa(i)), F(55, "X/Y"))
		case 3:
			raw = sc.Msg("V", F(262, "r"+itoa(i)), F(263, "1"), F(264, "0"))
		default:
			// types that have a handled type as a prefix: handlers of "V" / "D" / "1" must not see them
			raw = sc.Msg([]string{"V1", "DD", "10"}[w.W.Draw(3)], F(58, "p"+itoa(i)))
		}
		inbound = append(inbound, raw)
		sc.P.Send(raw)
		if w.W.Chance(1, 2) {
			simrt.Yield("harness.inbound")
		} else {
			sc.Settle()
		}
	}
	simrt.WaitFor("senders-done", func() bool { return done == nTasks })
	sc.Settle()
	simrt.Sleep(time.Duration(w.W.Draw(2*hb*1000)) * time.Millisecond)
	sc.Settle()

	wire := sc.P.Msgs()[wireBefore:]
	if !sc.checkFraming(wire) {
		return
	}
	// index
	wireBySeq := map[int]RxMsg{}
	for _, m := range wire {
		n, _ := GetInt(m.Raw, TagMsgSeqNum)
		if _, dup := wireBySeq[n]; !dup {
			wireBySeq[n] = m
		}
	}
	savedOK := map[int]uint64{} // seq -> event seq of first successful save
	saveFailed := map[int]bool{}
	for _, c := range store.Calls {
		if c.Op != "save" {
			continue
		}
		if c.Err {
			saveFailed[c.SeqNum] = true
		} else if _, ok := savedOK[c.SeqNum]; !ok {
			savedOK[c.SeqNum] = c.Seq
		}
	}
	// (a) stored before sent
	for _, n := range sortedInts(wireBySeq) {
		m := wireBySeq[n]
		ev, ok := savedOK[n]
		if !ok {
			w.Violate("sent-without-save", m.Type, fmt.Sprintf("message 34=%d (type %s) is on the wire but was never saved successfully", n, m.Type))
		} else if ev > m.Seq {
			w.Violate("sent-before-save", m.Type, fmt.Sprintf("message 34=%d reached the wire (event %d) before its Save (event %d)", n, m.Seq, ev))
		}
	}
	// (b) failed save / refusal => not transmitted and Send returned an error
	refusedSeq := map[int]bool{}
	for _, c := range log {
		if c.dir == "out" && c.refused {
			refusedSeq[c.seq] = true
		}
	}
	for _, r := range sends {
		blocked := saveFailed[r.seq] && savedOK[r.seq] == 0 || refusedSeq[r.seq]
		_, onWire := wireBySeq[r.seq]
		if blocked {
			why := "an outgoing handler refused it"
			if saveFailed[r.seq] {
				why = "its Save failed"
			}
			if r.err == nil {
				w.Violate("blocked-send-no-error", r.typ, fmt.Sprintf("Send of 34=%d returned nil although %s", r.seq, why))
			}
			if onWire {
				w.Violate("blocked-send-transmitted", r.typ, fmt.Sprintf("message 34=%d was transmitted although %s", r.seq, why))
			}
			w.Probe("blocked_send")
		}
	}
	for _, n := range sortedInts(saveFailed) {
		if _, onWire := wireBySeq[n]; onWire && savedOK[n] == 0 {
			w.Violate("blocked-send-transmitted", "library", fmt.Sprintf("message 34=%d was transmitted although its Save failed", n))
		}
	}
	for _, n := range sortedInts(refusedSeq) {
		if m, onWire := wireBySeq[n]; onWire {
			w.Violate("blocked-send-transmitted", "refused/"+m.Type, fmt.Sprintf("message 34=%d (type %s) was transmitted although an outgoing handler refused it", n, m.Type))
		}
	}
	// (c) handler order per outgoing message, (d) handlers saw the wire bytes
	perMsg := map[int][]hcall{}
	for _, c := range log {
		if c.dir == "out" {
			perMsg[c.seq] = append(perMsg[c.seq], c)
		}
	}
	for _, n := range sortedInts(perMsg) {
		calls := perMsg[n]
		sawType := false
		lastAll, lastTyp := -1, -1
		for i, c := range calls {
			if c.all {
				if sawType {
					w.Violate("outgoing-handler-order", "all-after-type", fmt.Sprintf("message 34=%d: an all-types handler ran after a type-specific one", n))
				}
				if p := regPos[c.handler]; p < lastAll {
					w.Violate("outgoing-handler-order", "all-registration-order", fmt.Sprintf("message 34=%d: all-types handlers ran out of registration order", n))
				} else {
					lastAll = p
				}
			} else {
				sawType = true
				if c.typ != defs[c.handler].typ {
					w.Violate("outgoing-handler-wrong-type", c.typ, fmt.Sprintf("handler for type %s was offered a %s", defs[c.handler].typ, c.typ))
				}
				if p := regPos[c.handler]; p < lastTyp {
					w.Violate("outgoing-handler-order", "type-registration-order", fmt.Sprintf("message 34=%d: type handlers ran out of registration order", n))
				} else {
					lastTyp = p
				}
			}
			if c.refused && i != len(calls)-1 {
				w.Violate("outgoing-handler-after-refusal", "", fmt.Sprintf("message 34=%d: %d more handler(s) ran after a refusal", n, len(calls)-1-i))
			}
			// a handler placed before a modifying one legitimately saw the earlier form: only what
			// was seen from the last modification on must equal the wire
			afterLastMod := true
			for _, later := range calls[i+1:] {
				if defs[later.handler].modify {
					afterLastMod = false
				}
			}
			if m, ok := wireBySeq[n]; ok && afterLastMod && !bytes.Equal(m.Raw, c.bytes) {
				w.Violate("handler-saw-different-bytes", m.Type, fmt.Sprintf("message 34=%d: handler saw %s, wire has %s", n, short(c.bytes), short(m.Raw)))
			}
		}
		// completeness: without a refusal every registered handler of both lists ran exactly once
		if len(calls) > 0 && !calls[len(calls)-1].refused {
			typ := calls[0].typ
			want := 0
			for _, d := range defs {
				if d.dir == "out" && !d.late && (d.all || d.typ == typ) {
					want++
				}
			}
			got := 0
			for _, c := range calls {
				if !defs[c.handler].late {
					got++
				}
			}
			if _, ok := wireBySeq[n]; ok && got != want {
				w.Violate("outgoing-handler-skipped", typ, fmt.Sprintf("message 34=%d (type %s) was transmitted after %d of %d handlers registered before the traffic ran", n, typ, got, want))
			}
		}
	}
	// (e) inbound: all-types handlers in registration order (the traversal of one list stops at a
	// handler that returns false, as documented), then — whatever the all-types handlers answered —
	// the handlers of the message's own type, in registration order
	for _, raw := range inbound {
		typ := MsgType(raw)
		var calls []hcall
		for _, c := range log {
			if c.dir == "in" && bytes.Equal(c.bytes, raw) {
				calls = append(calls, c)
			}
		}
		var wantAll, wantTyp []int
		for _, list := range []bool{true, false} {
			var ids []int
			for _, d := range defs {
				if d.dir == "in" && !d.late && d.all == list && (list || d.typ == typ) {
					ids = append(ids, d.id)
				}
			}
			// in registration order
			for i := 0; i < len(ids); i++ {
				for j := i + 1; j < len(ids); j++ {
					if regPos[ids[j]] < regPos[ids[i]] {
						ids[i], ids[j] = ids[j], ids[i]
					}
				}
			}
			if list {
				wantAll = ids
			} else {
				wantTyp = ids
			}
		}
		// expected call sequence given the refusals that were actually returned
		var gotAll, gotTyp []hcall
		sawType := false
		for _, c := range calls {
			if defs[c.handler].late {
				continue // whether a handler registered mid-traffic already sees this message is not constrained
			}
			if !c.all && defs[c.handler].typ != typ {
				w.Violate("incoming-handler-wrong-type", typ, fmt.Sprintf("handler registered for type %s was offered a message of type %s", defs[c.handler].typ, typ))
			}
			if c.all {
				if sawType {
					w.Violate("incoming-handler-order", "all-after-type", "an all-types incoming handler ran after a type-specific one")
				}
				gotAll = append(gotAll, c)
			} else {
				sawType = true
				gotTyp = append(gotTyp, c)
			}
		}
		check := func(name string, want []int, got []hcall) {
			for i, c := range got {
				if i >= len(want) || want[i] != c.handler {
					w.Violate("incoming-handler-order", name+"-registration-order", fmt.Sprintf("inbound %s: %s incoming handlers ran out of registration order", typ, name))
					return
				}
				if c.refused {
					if i != len(got)-1 {
						w.Violate("incoming-handler-after-refusal", name, fmt.Sprintf("inbound %s: %s handlers kept running after one returned false", typ, name))
					}
					return
				}
			}
			if len(got) != len(want) {
				w.Violate("incoming-handler-skipped", name+"/"+typ, fmt.Sprintf("inbound %s was offered to %d of %d registered %s handlers although none of them returned false", typ, len(got), len(want), name))
			}
		}
		check("all-types", wantAll, gotAll)
		check("type", wantTyp, gotTyp)
		if len(wantAll)+len(wantTyp) > 0 {
			w.Probe("inbound_dispatch_checked")
		}
		for _, c := range gotAll {
			if c.refused && len(wantTyp) > 0 {
				w.Probe("all_types_refusal_then_type_handlers")
			}
		}
	}
	if len(perMsg) > 0 {
		w.Probe("outgoing_handlers_ran")
	}
	sc.Teardown()
}

func sortedInts[V any](m map[int]V) []int {
	ks := make([]int, 0, len(m))
	for k := range m {
		ks = append(ks, k)
	}
	sort.Ints(ks)
	return ks
}
