package harness

import (
	"io"
	"net"
	"strconv"
	"sync"
	"syscall"
	"time"

	"verif/simrt"
)

// simnet: in-memory duplex byte streams implementing net.Conn / net.Listener.
// All blocking is on bubble channels or bubble timers (durable for synctest) and is
// followed by a Yield, so a woken goroutine parks before it touches anything.

type seg struct {
	at   time.Time
	data []byte
}

// dir is one direction of a connection: bytes from a writer endpoint to a reader endpoint.
type dir struct {
	name    string
	segs    []seg
	queued  int
	cap     int  // writer blocks while queued > 0 && queued+len > cap; <0 unlimited
	wclosed bool // writer closed: reader sees EOF after draining
	rgone   bool // reader endpoint closed: writes fail once the grace budget is used
	grace   int  // bytes still accepted after rgone (models the kernel send buffer)
	reset   bool // abortive close: reader gets ECONNRESET at once, queued data is dropped
	rerr    error
	rwake   chan struct{}
	wwake   chan struct{}
	sink    func([]byte) // recorder: a scripted peer that reads instantly
	stall   bool         // recorder stops reading (back-pressure builds up)
	tap     func([]byte) // observes every accepted write
	total   int64
}

//go:norace
func newDir(name string, capacity int) *dir {
	return &dir{name: name, cap: capacity, rwake: make(chan struct{}, 1), wwake: make(chan struct{}, 1)}
}

//go:norace
func sig(c chan struct{}) {
	simrt.RaceDisable()
	select {
	case c <- struct{}{}:
	default:
	}
	simrt.RaceEnable()
}

type timeoutErr struct{}

//go:norace
func (timeoutErr) Error() string { return "i/o timeout" }

//go:norace
func (timeoutErr) Timeout() bool { return true }

//go:norace
func (timeoutErr) Temporary() bool { return true }

type simAddr string

//go:norace
func (a simAddr) Network() string { return "sim" }

//go:norace
func (a simAddr) String() string { return string(a) }

// Net owns every simulated connection of a run.
type Net struct {
	mu    sync.Mutex
	w     *World
	nconn int
	conns []*Conn
}

//go:norace
func (n *Net) lock() { simrt.RaceDisable(); n.mu.Lock() }

//go:norace
func (n *Net) unlock() { n.mu.Unlock(); simrt.RaceEnable() }

// ConnPlan shapes and injects faults into one endpoint (drawn from the tapes by the scenario).
type ConnPlan struct {
	ReadMax    func() int                // max bytes returned by one Read (<=0: unlimited)
	ReadErrAt  int                       // the k-th Read fails (1-based, 0 never)
	WriteErrAt int                       // the k-th Write fails
	WriteShort bool                      // ...after accepting a prefix
	Shape      func(b []byte) []seg      // segmentation / latency of written bytes (nil: one segment, no delay)
	OnRead     func(n int, err error)    // observers
	OnWrite    func(b []byte, err error) //
}

// Conn is one endpoint.
type Conn struct {
	n        *Net
	id       string
	in, out  *dir
	closed   bool
	closeCh  chan struct{}
	wdl, rdl time.Time
	Plan     ConnPlan
	nreads   int
	nwrites  int
	CloseSeq uint64 // event sequence of Close (0: still open)
	CloseAt  time.Time
}

// Pipe creates a connection; a and b are its two endpoints.
//
//go:norace
func (n *Net) Pipe(name string, capAB, capBA int) (a, b *Conn) {
	n.lock()
	defer n.unlock()
	n.nconn++
	id := name + "#" + strconv.Itoa(n.nconn)
	ab := newDir(id+":a>b", capAB)
	ba := newDir(id+":b>a", capBA)
	a = &Conn{n: n, id: id + ".a", in: ba, out: ab, closeCh: make(chan struct{})}
	b = &Conn{n: n, id: id + ".b", in: ab, out: ba, closeCh: make(chan struct{})}
	n.conns = append(n.conns, a, b)
	return
}

//go:norace
func (c *Conn) ID() string { return c.id }

//go:norace
func errClosed(op string) error { return &net.OpError{Op: op, Net: "sim", Err: net.ErrClosed} }

//go:norace
func (c *Conn) Read(p []byte) (int, error) {
	simrt.Yield("net.Read")
	for {
		c.n.lock()
		in := c.in
		c.nreads++
		switch {
		case c.closed:
			c.n.unlock()
			return c.rdone(0, errClosed("read"))
		case c.Plan.ReadErrAt > 0 && c.nreads >= c.Plan.ReadErrAt:
			c.Plan.ReadErrAt = 0
			c.n.unlock()
			c.n.w.Fault("read_error")
			return c.rdone(0, &net.OpError{Op: "read", Net: "sim", Err: syscall.EIO})
		case in.rerr != nil:
			err := in.rerr
			in.rerr = nil
			c.n.unlock()
			return c.rdone(0, err)
		case in.reset:
			c.n.unlock()
			return c.rdone(0, &net.OpError{Op: "read", Net: "sim", Err: syscall.ECONNRESET})
		}
		now := time.Now()
		var wait time.Duration = -1
		if len(in.segs) > 0 {
			s := &in.segs[0]
			if !s.at.After(now) {
				max := len(p)
				if c.Plan.ReadMax != nil {
					if m := c.Plan.ReadMax(); m > 0 && m < max {
						max = m
					}
				}
				// like a kernel receive buffer: everything that has arrived is handed over at once
				k := 0
				for k < max && len(in.segs) > 0 && !in.segs[0].at.After(now) {
					s := &in.segs[0]
					m := copy(p[k:max], s.data)
					s.data = s.data[m:]
					k += m
					if len(s.data) == 0 {
						in.segs = in.segs[1:]
					}
				}
				in.queued -= k
				sig(in.wwake)
				c.n.unlock()
				return c.rdone(k, nil)
			}
			wait = s.at.Sub(now)
		} else if in.wclosed {
			c.n.unlock()
			return c.rdone(0, io.EOF)
		}
		rdl := c.rdl
		c.n.unlock()
		c.nreads-- // a blocked attempt is not a read
		var tc, dc <-chan time.Time
		if wait >= 0 {
			t := time.NewTimer(wait)
			tc = t.C
			defer t.Stop()
		}
		if !rdl.IsZero() {
			d := time.Until(rdl)
			if d <= 0 {
				return c.rdone(0, &net.OpError{Op: "read", Net: "sim", Err: timeoutErr{}})
			}
			t := time.NewTimer(d)
			dc = t.C
			defer t.Stop()
		}
		simrt.RaceDisable() // the transport must not order the endpoints' memory accesses
		select {
		case <-in.rwake:
		case <-tc:
		case <-dc:
		case <-c.closeCh:
		}
		simrt.RaceEnable()
		simrt.Yield("net.Read'")
	}
}

//go:norace
func (c *Conn) rdone(n int, err error) (int, error) {
	if c.Plan.OnRead != nil {
		c.Plan.OnRead(n, err)
	}
	return n, err
}

//go:norace
func (c *Conn) wdone(b []byte, n int, err error) (int, error) {
	if c.Plan.OnWrite != nil {
		c.Plan.OnWrite(b[:n], err)
	}
	return n, err
}

//go:norace
func (c *Conn) Write(b []byte) (int, error) {
	simrt.Yield("net.Write")
	c.n.lock()
	c.nwrites++
	out := c.out
	if c.closed {
		c.n.unlock()
		return c.wdone(b, 0, errClosed("write"))
	}
	accept := len(b)
	var ferr error
	if c.Plan.WriteErrAt > 0 && c.nwrites >= c.Plan.WriteErrAt {
		c.Plan.WriteErrAt = 0
		ferr = &net.OpError{Op: "write", Net: "sim", Err: syscall.EIO}
		accept = 0
		if c.Plan.WriteShort && len(b) > 1 {
			accept = len(b) / 2
			c.n.w.Fault("short_write")
		} else {
			c.n.w.Fault("write_error")
		}
	}
	if out.rgone || out.reset {
		if out.reset || out.grace < accept {
			c.n.unlock()
			c.n.w.Fault("write_after_peer_close_failed")
			return c.wdone(b, 0, &net.OpError{Op: "write", Net: "sim", Err: syscall.EPIPE})
		}
		out.grace -= accept
		c.n.unlock()
		c.n.w.Fault("write_after_peer_close_ok")
		return c.wdone(b, accept, ferr)
	}
	// back-pressure: like a kernel send buffer, bytes are taken as room becomes available; a write
	// deadline that expires in between leaves a partial write behind (n > 0 and a timeout error)
	now := time.Now()
	accepted := 0
	for accepted < accept {
		room := accept - accepted
		switch {
		case out.cap > 0:
			if r := out.cap - out.queued; r < room {
				room = r
			}
		case out.cap == 0:
			if out.queued > 0 {
				room = 0
			}
		}
		if room > 0 {
			data := append([]byte(nil), b[accepted:accepted+room]...)
			accepted += room
			out.total += int64(room)
			if out.tap != nil {
				out.tap(data)
			}
			if out.sink != nil && !out.stall && len(out.segs) == 0 {
				out.sink(data)
				continue
			}
			var segs []seg
			if c.Plan.Shape != nil {
				segs = c.Plan.Shape(data)
			} else {
				segs = []seg{{data: data}}
			}
			for _, sg := range segs {
				if sg.at.IsZero() {
					sg.at = now
				}
				// a stream never reorders: availability is monotone
				if k := len(out.segs); k > 0 && sg.at.Before(out.segs[k-1].at) {
					sg.at = out.segs[k-1].at
				}
				out.segs = append(out.segs, sg)
				out.queued += len(sg.data)
			}
			sig(out.rwake)
			continue
		}
		wdl := c.wdl
		c.n.unlock()
		var dc <-chan time.Time
		if !wdl.IsZero() {
			d := time.Until(wdl)
			if d <= 0 {
				c.n.w.Fault("write_deadline")
				if accepted > 0 {
					c.n.w.Fault("partial_write_at_deadline")
				}
				return c.wdone(b, accepted, &net.OpError{Op: "write", Net: "sim", Err: timeoutErr{}})
			}
			t := time.NewTimer(d)
			dc = t.C
			defer t.Stop()
		}
		c.n.w.Probe("net_write_blocked")
		simrt.RaceDisable()
		select {
		case <-out.wwake:
		case <-dc:
		case <-c.closeCh:
		}
		simrt.RaceEnable()
		simrt.Yield("net.Write'")
		c.n.lock()
		if c.closed {
			c.n.unlock()
			return c.wdone(b, accepted, errClosed("write"))
		}
		if out.rgone || out.reset {
			c.n.unlock()
			return c.wdone(b, accepted, &net.OpError{Op: "write", Net: "sim", Err: syscall.EPIPE})
		}
	}
	c.n.unlock()
	return c.wdone(b, accept, ferr)
}

// Close closes this endpoint: the peer reads EOF after draining, the peer's writes fail.
//
//go:norace
func (c *Conn) Close() error {
	simrt.Yield("net.Close")
	return c.closeWith(false)
}

//go:norace
func (c *Conn) closeWith(reset bool) error {
	c.n.lock()
	if c.closed {
		c.n.unlock()
		return errClosed("close")
	}
	c.closed = true
	c.CloseSeq = c.n.w.Sched.NextSeq()
	c.CloseAt = time.Now()
	close(c.closeCh) // inside lock(): race sync events are disabled here
	c.out.wclosed = true
	if reset {
		c.out.reset = true
		c.out.segs, c.out.queued = nil, 0
	}
	c.in.rgone = true
	c.in.segs, c.in.queued = nil, 0
	sig(c.out.rwake)
	sig(c.in.wwake)
	if c.out.sink != nil && !c.out.stall {
		c.out.sink(nil) // nil chunk = end of stream for a recorder
	}
	c.n.unlock()
	c.n.w.Logf("net", "close %s reset=%v", c.id, reset)
	return nil
}

//go:norace
func (c *Conn) IsClosed() bool { c.n.lock(); defer c.n.unlock(); return c.closed }

//go:norace
func (c *Conn) LocalAddr() net.Addr { return simAddr(c.id) }

//go:norace
func (c *Conn) RemoteAddr() net.Addr { return simAddr(c.id + "-peer") }

//go:norace
func (c *Conn) SetDeadline(t time.Time) error {
	c.n.lock()
	c.rdl, c.wdl = t, t
	c.n.unlock()
	return nil
}

//go:norace
func (c *Conn) SetReadDeadline(t time.Time) error {
	c.n.lock()
	c.rdl = t
	c.n.unlock()
	return nil
}

//go:norace
func (c *Conn) SetWriteDeadline(t time.Time) error {
	c.n.lock()
	closed := c.closed
	c.wdl = t
	c.n.unlock()
	if closed {
		return errClosed("set")
	}
	return nil
}

// ---- harness-side controls (called by scripted peers; never block) ----

// Inject queues bytes for the peer endpoint to read, as the given segments.
//
//go:norace
func (c *Conn) Inject(segs []seg) {
	c.n.lock()
	out := c.out
	now := time.Now()
	for _, s := range segs {
		if s.at.IsZero() {
			s.at = now
		}
		if k := len(out.segs); k > 0 && s.at.Before(out.segs[k-1].at) {
			s.at = out.segs[k-1].at
		}
		out.segs = append(out.segs, s)
		out.queued += len(s.data)
		out.total += int64(len(s.data))
	}
	sig(out.rwake)
	c.n.unlock()
}

// Pending reports bytes injected/written towards the peer endpoint and not yet read by it.
//
//go:norace
func (c *Conn) Pending() int { c.n.lock(); defer c.n.unlock(); return c.out.queued }

// PendingUntil is the time the last queued segment towards the peer becomes readable (zero if none).
//
//go:norace
func (c *Conn) PendingUntil() time.Time {
	c.n.lock()
	defer c.n.unlock()
	if k := len(c.out.segs); k > 0 {
		return c.out.segs[k-1].at
	}
	return time.Time{}
}

// SetSink makes this endpoint a recorder: everything the peer endpoint writes is
// handed to f at once (f(nil) = end of stream) instead of being queued for Read.
//
//go:norace
func (c *Conn) SetSink(f func([]byte)) { c.n.lock(); c.in.sink = f; c.n.unlock() }

// Stall makes the recorder stop (true) or resume (false) reading.
//
//go:norace
func (c *Conn) Stall(on bool) {
	c.n.lock()
	in := c.in
	in.stall = on
	if !on && in.sink != nil {
		for _, s := range in.segs {
			in.sink(s.data)
		}
		in.segs, in.queued = nil, 0
		if in.wclosed {
			in.sink(nil)
		}
		sig(in.wwake)
	}
	c.n.unlock()
}

// SetCap sets the in-flight capacity of the direction the peer endpoint writes into.
//
//go:norace
func (c *Conn) SetInCap(n int) { c.n.lock(); c.in.cap = n; c.n.unlock() }

// SetGrace sets how many bytes the peer endpoint may still write "successfully" after this endpoint closed.
//
//go:norace
func (c *Conn) SetGrace(n int) { c.n.lock(); c.in.grace = n; c.n.unlock() }

// Abort closes this endpoint abortively (the peer reads ECONNRESET).
//
//go:norace
func (c *Conn) Abort() { c.closeWith(true) }

// CloseNow closes this endpoint without a scheduling point (harness side).
//
//go:norace
func (c *Conn) CloseNow() { c.closeWith(false) }

// InjectReadErr makes the peer endpoint's next Read fail with err.
//
//go:norace
func (c *Conn) InjectReadErr(err error) {
	c.n.lock()
	c.out.rerr = err
	sig(c.out.rwake)
	c.n.unlock()
}

// Tap observes every write accepted from this endpoint.
//
//go:norace
func (c *Conn) Tap(f func([]byte)) { c.n.lock(); c.out.tap = f; c.n.unlock() }

// ---- listener ----

type Listener struct {
	n        *Net
	ch       chan net.Conn
	closeCh  chan struct{}
	closed   bool
	errs     chan error
	Accepted int
}

//go:norace
func (n *Net) Listen() *Listener {
	return &Listener{n: n, ch: make(chan net.Conn, 16), closeCh: make(chan struct{}), errs: make(chan error, 4)}
}

//go:norace
func (l *Listener) Accept() (net.Conn, error) {
	simrt.Yield("net.Accept")
	select {
	case c := <-l.ch:
		simrt.Yield("net.Accept'")
		return c, nil
	case err := <-l.errs:
		simrt.Yield("net.Accept'")
		l.n.w.Fault("accept_error")
		return nil, err
	case <-l.closeCh:
		simrt.Yield("net.Accept'")
		return nil, errClosed("accept")
	}
}

//go:norace
func (l *Listener) Close() error {
	simrt.Yield("net.ListenerClose")
	l.n.lock()
	defer l.n.unlock()
	if l.closed {
		return errClosed("close")
	}
	l.closed = true
	close(l.closeCh)
	return nil
}

//go:norace
func (l *Listener) IsClosed() bool { l.n.lock(); defer l.n.unlock(); return l.closed }

//go:norace
func (l *Listener) Addr() net.Addr { return simAddr("listener") }

// Dial creates a connection to the listener and returns the client endpoint.
//
//go:norace
func (l *Listener) Dial(name string, capToServer, capToClient int) (client, server *Conn) {
	client, server = l.n.Pipe(name, capToServer, capToClient)
	l.ch <- server
	return
}

// FailAccept makes the next Accept return err.
//
//go:norace
func (l *Listener) FailAccept(err error) { l.errs <- err }
