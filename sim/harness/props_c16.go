package harness

import (
	"fmt"
	"time"

	"verif/simrt"
)

func init() {
	Register(&PropDef{ID: "C16", Run: c16, MaxSim: 2 * time.Hour})
}

// c16: damaged / out-of-state administrative messages injected into histories.
// Oracle: exactly one Reject naming the offender's sequence number (or tag 34),
// logged-on status unchanged, session and handler alive, follow-up traffic served.
func c16(w *World) {
	role := []string{"acceptor", "initiator"}[w.W.Draw(2)]
	buf := []int{0, 1, 10}[w.W.Draw(3)]
	hb := []int{2, 5, 30}[w.W.Draw(3)]
	state := []string{"waiting", "logged", "logged", "probe-outstanding", "logout-sent"}[w.W.Draw(5)]
	w.Cfg("role", role)
	w.Cfg("buf", buf)
	w.Cfg("hb", hb)
	w.Cfg("state", state)
	sc := w.NewScript(ScriptCfg{Role: role, HandlerBuf: buf, ConnBuf: buf, HBMin: 1, HBMax: 60, HeartBtInt: hb, CloseTimeout: time.Hour})
	s := sc.Sess()
	if s == nil {
		w.Inconclusive = "no-session"
		return
	}
	sc.P.Take()
	if state != "waiting" {
		sc.DoLogon(hb)
		if !s.IsLogged() {
			w.Inconclusive = "logon-failed"
			return
		}
	}
	switch state {
	case "probe-outstanding":
		// stay silent until the library probes us with a TestRequest
		tol := hb / 20
		if tol < 1 {
			tol = 1
		}
		simrt.Sleep(time.Duration(hb+tol)*time.Second + time.Duration(hb+tol)*150*time.Millisecond)
		sc.Settle()
		if count(sc.P.Take(), "1") == 0 {
			w.Inconclusive = "no-probe"
			return
		}
		w.Probe("probe_outstanding")
	case "logout-sent":
		_ = s.Logout()
		sc.Settle()
		sc.P.Take()
	}
	n := 1 + w.W.Draw(w.Deep(5))
	for i := 0; i < n && len(w.Viol) == 0 && !sc.P.EOF; i++ {
		typ := []string{"A", "5", "0", "1", "2"}[w.W.Draw(5)]
		var extra []Field
		switch typ {
		case "A":
			extra = LogonFields(hb, "0", "", "")
		case "1":
			extra = []Field{F(TagTestReqID, "q"+itoa(i))}
		case "2":
			extra = []Field{FI(TagBeginSeqNo, 1), FI(TagEndSeqNo, 1)}
		}
		seq := sc.NextSeq()
		fields := AdminMsg(typ, seq, sc.PeerID, sc.LibID, extra...)
		if w.W.Chance(1, 3) {
			// text that looks like a sequence number inside other fields, ahead of the real one:
			// a tag that ends in 34 and values that contain "34="
			look := []Field{F(134, itoa(900+i)), F(50, "34="+itoa(700+i)), F(1134, "x")}[w.W.Draw(3)]
			fields = append([]Field{fields[0], look}, fields[1:]...)
			w.Probe("seqnum_lookalike")
		}
		opts := WireOpts{}
		damage := ""
		wantTag34 := false
		logged := s.IsLogged() || state == "probe-outstanding" && i == 0
		switch w.W.Pick(3, 3, 3, 2, 2, 4) {
		case 0:
			damage, opts.BadSum = "checksum", true
		case 1:
			damage, opts.BadLen = "bodylength", true
		case 2:
			// non-numeric numeric field of that type, if it has one
			switch typ {
			case "A":
				damage = "nonnumeric-108"
				txt, kind := NonNumeric(w.W, hb)
				setField(fields, TagHeartBtInt, txt)
				w.Probe("nonnumeric_" + kind)
			case "2":
				txt, kind := NonNumeric(w.W, 1)
				if w.W.Chance(1, 2) {
					damage = "nonnumeric-7"
					setField(fields, TagBeginSeqNo, txt)
				} else {
					damage = "nonnumeric-16"
					setField(fields, TagEndSeqNo, txt)
				}
				w.Probe("nonnumeric_" + kind)
			default:
				damage, opts.BadSum = "checksum", true
			}
		case 3:
			damage, wantTag34 = "nonnumeric-34", true
			txt, kind := NonNumeric(w.W, seq)
			setField(fields, TagMsgSeqNum, txt)
			w.Probe("nonnumeric_" + kind)
		case 4:
			damage, wantTag34 = "missing-34", true
			fields = dropField(fields, TagMsgSeqNum)
		case 5:
			// well-formed but not permitted in the current state
			switch {
			case !logged && (typ == "0" || typ == "1" || typ == "2" || typ == "5"):
				damage = "out-of-state"
			case logged && typ == "A":
				damage = "out-of-state"
			default:
				damage, opts.BadSum = "checksum", true
			}
		}
		if state == "logout-sent" && damage == "out-of-state" {
			// after a local Logout the statement only speaks about damaged messages
			damage, opts.BadSum = "checksum", true
		}
		raw := Build(fields, opts)
		before := s.IsLogged()
		replies := dropTimer(sc.Step(raw))
		if !sc.checkFraming(replies) {
			return
		}
		key := typ + "/" + damage + "/" + stateName(state, before)
		w.State(key)
		nRej := count(replies, "3")
		if nRej != 1 {
			w.Violate("reject-count", key, fmt.Sprintf("%s (%s) in state %s answered by %q, want exactly one Reject: %s", typ, damage, stateName(state, before), typesOf(replies), short(raw)))
		} else {
			rj := filterType(replies, "3")[0].Raw
			if wantTag34 {
				if tag, has := GetInt(rj, TagRefTagID); !has || tag != TagMsgSeqNum {
					w.Violate("reject-reference", key, fmt.Sprintf("sequence number unusable, Reject must name tag 34 in 371; got 371=%d (present %v): %s", tag, has, short(rj)))
				}
			} else if ref, has := GetInt(rj, TagRefSeqNum); !has || ref != seq {
				w.Violate("reject-reference", key, fmt.Sprintf("Reject carries 45=%d (present %v), offender had 34=%d: %s", ref, has, seq, short(rj)))
			}
		}
		for _, m := range replies {
			if m.Type != "3" {
				w.Violate("invalid-message-acted-on", key+"/"+m.Type, fmt.Sprintf("invalid %s (%s) also produced a %q: %s", typ, damage, m.Type, short(m.Raw)))
			}
		}
		if s.IsLogged() != before && !(state == "probe-outstanding" && !before) {
			w.Violate("logged-state-changed", key, fmt.Sprintf("IsLogged() went %v -> %v on an invalid %s (%s)", before, s.IsLogged(), typ, damage))
		}
		select {
		case <-s.Context().Done():
			w.Violate("session-stopped", key, fmt.Sprintf("session context cancelled by an invalid %s (%s)", typ, damage))
		default:
		}
		if sc.P.EOF {
			w.Violate("session-stopped", key+"/eof", fmt.Sprintf("connection closed after an invalid %s (%s)", typ, damage))
		}
		w.Logf("step", "%d %s -> %q", i, key, typesOf(replies))
	}
	// valid traffic that follows is processed normally
	if len(w.Viol) == 0 && !sc.P.EOF {
		switch state {
		case "waiting":
			if role == "acceptor" {
				r := dropTimer(sc.Step(sc.Msg("A", LogonFields(hb, "0", "", "")...)))
				if count(r, "A") != 1 || !s.IsLogged() {
					w.Violate("follow-up-not-served", "logon", fmt.Sprintf("valid Logon after rejected messages answered by %q, logged=%v", typesOf(r), s.IsLogged()))
				}
			} else {
				sc.Step(sc.Msg("A", LogonFields(hb, "0", "", "")...))
				if !s.IsLogged() {
					w.Violate("follow-up-not-served", "logon-answer", "Logon answer after rejected messages did not log the initiator on")
				}
			}
		case "logged", "probe-outstanding":
			r := sc.Step(sc.Msg("1", F(TagTestReqID, "follow")))
			ok := false
			for _, m := range r {
				if v, _ := Get(m.Raw, TagTestReqID); m.Type == "0" && v == "follow" {
					ok = true
				}
			}
			if !ok {
				w.Violate("follow-up-not-served", "testrequest", fmt.Sprintf("TestRequest after rejected messages answered by %q", typesOf(r)))
			}
		}
		w.Probe("follow_up_checked")
	}
	sc.Teardown()
}

func stateName(state string, logged bool) string {
	if state == "logged" && !logged {
		return "logged(no)"
	}
	return state
}

func setField(fs []Field, tag int, val string) {
	t := itoa(tag)
	for i := range fs {
		if fs[i].Tag == t {
			fs[i].Val = val
		}
	}
}

func dropField(fs []Field, tag int) []Field {
	t := itoa(tag)
	var out []Field
	for _, f := range fs {
		if f.Tag != t {
			out = append(out, f)
		}
	}
	return out
}
