package harness

import (
	"bytes"
	"fmt"
	"strconv"
)

// Independent FIX wire codec of the harness. Shares no code with the library.

const SOH = 0x01

// Field is one tag=value pair.
type Field struct {
	Tag string
	Val string
	Raw bool // emit Tag alone, without '=' (malformed on purpose)
}

//go:norace
func F(tag int, val string) Field { return Field{Tag: strconv.Itoa(tag), Val: val} }

//go:norace
func FI(tag, val int) Field { return Field{Tag: strconv.Itoa(tag), Val: strconv.Itoa(val)} }

// WireOpts lets a scripted peer damage the framing on purpose.
type WireOpts struct {
	BadLen    bool // BodyLength off by one
	BadSum    bool // CheckSum off by one
	Begin     string
	LenDelta  int
	RawLenVal string // overrides the BodyLength text entirely
	RawSumVal string
}

// Build frames fields (everything after BodyLength, starting with MsgType) as
// 8=..|9=..|fields|10=..| computing BodyLength and CheckSum itself.
//
//go:norace
func Build(fields []Field, o WireOpts) []byte {
	var body bytes.Buffer
	for _, f := range fields {
		if f.Raw {
			body.WriteString(f.Tag)
			body.WriteByte(SOH)
			continue
		}
		body.WriteString(f.Tag)
		body.WriteByte('=')
		body.WriteString(f.Val)
		body.WriteByte(SOH)
	}
	begin := o.Begin
	if begin == "" {
		begin = "FIX.4.4"
	}
	n := body.Len() + o.LenDelta
	if o.BadLen {
		n++
	}
	lenTxt := strconv.Itoa(n)
	if o.RawLenVal != "" {
		lenTxt = o.RawLenVal
	}
	var m bytes.Buffer
	m.WriteString("8=" + begin)
	m.WriteByte(SOH)
	m.WriteString("9=" + lenTxt)
	m.WriteByte(SOH)
	m.Write(body.Bytes())
	sum := 0
	for _, b := range m.Bytes() {
		sum += int(b)
	}
	sum %= 256
	if o.BadSum {
		sum = (sum + 1) % 256
	}
	sumTxt := fmt.Sprintf("%03d", sum)
	if o.RawSumVal != "" {
		sumTxt = o.RawSumVal
	}
	m.WriteString("10=" + sumTxt)
	m.WriteByte(SOH)
	return m.Bytes()
}

// Split cuts a byte stream into messages: a message ends with the SOH-terminated
// field whose tag is exactly "10". rest is the trailing incomplete part.
//
//go:norace
func Split(stream []byte) (msgs [][]byte, rest []byte) {
	start := 0
	fieldStart := 0
	for i, b := range stream {
		if b != SOH {
			continue
		}
		f := stream[fieldStart:i]
		if len(f) >= 3 && f[0] == '1' && f[1] == '0' && f[2] == '=' {
			msgs = append(msgs, stream[start:i+1])
			start = i + 1
		}
		fieldStart = i + 1
	}
	return msgs, stream[start:]
}

// Parse splits one message into fields (no validation).
//
//go:norace
func Parse(msg []byte) []Field {
	var out []Field
	for _, f := range bytes.Split(msg, []byte{SOH}) {
		if len(f) == 0 {
			continue
		}
		eq := bytes.IndexByte(f, '=')
		if eq < 0 {
			out = append(out, Field{Tag: string(f)})
			continue
		}
		out = append(out, Field{Tag: string(f[:eq]), Val: string(f[eq+1:])})
	}
	return out
}

// Get returns the first value of tag in msg.
//
//go:norace
func Get(msg []byte, tag int) (string, bool) {
	t := strconv.Itoa(tag)
	for _, f := range Parse(msg) {
		if f.Tag == t {
			return f.Val, true
		}
	}
	return "", false
}

//go:norace
func GetInt(msg []byte, tag int) (int, bool) {
	v, ok := Get(msg, tag)
	if !ok {
		return 0, false
	}
	n, err := strconv.Atoi(v)
	return n, err == nil
}

//go:norace
func MsgType(msg []byte) string { v, _ := Get(msg, 35); return v }

// FrameOK recomputes BodyLength and CheckSum from the bytes alone.
//
//go:norace
func FrameOK(msg []byte) (lenOK, sumOK bool) {
	fs := Parse(msg)
	if len(fs) < 3 || fs[0].Tag != "8" || fs[1].Tag != "9" || fs[len(fs)-1].Tag != "10" {
		return false, false
	}
	bodyStart := len(fs[0].Tag) + 1 + len(fs[0].Val) + 1 + len(fs[1].Tag) + 1 + len(fs[1].Val) + 1
	trailer := len("10=") + len(fs[len(fs)-1].Val) + 1
	want := len(msg) - bodyStart - trailer
	got, err := strconv.Atoi(fs[1].Val)
	lenOK = err == nil && got == want
	sum := 0
	for _, b := range msg[:len(msg)-trailer] {
		sum += int(b)
	}
	sumOK = fmt.Sprintf("%03d", sum%256) == fs[len(fs)-1].Val
	return
}

// Pretty renders a message with | for SOH.
//
//go:norace
func Pretty(msg []byte) string { return string(bytes.ReplaceAll(msg, []byte{SOH}, []byte{'|'})) }
