package harness

import (
	"fmt"
	"strings"
	"time"

	"verif/simrt"
)

func init() {
	Register(&PropDef{ID: "C14", Run: c14, MaxSim: 2 * time.Hour})
}

// hostileID draws a TestReqID: any bytes except SOH, any length 1..300.
func hostileID(t *Tape, uniq int) string {
	var s string
	switch t.Pick(4, 3, 3, 2, 2, 2, 1) {
	case 6:
		// longer than any read buffer a transport is likely to use
		s = strings.Repeat("y", 4000+t.Draw(6000))
	case 0:
		s = "id"
	case 1:
		s = []string{"10=000", "112=zzz", "34=9", "35=5", "9=5", "8=FIX.4.4", "=", "==", "a=b=c", "108=1", "49=PEER", "10=", "=10"}[t.Draw(13)]
	case 2:
		s = []string{" lead", "trail ", "  ", "\t", "a b", "\x00", "a\x00b", "\xff\xfe", "\x02\x03", "é", "\x7f"}[t.Draw(11)]
	case 3:
		n := 1 + t.Draw(300)
		b := make([]byte, n)
		for i := range b {
			c := byte(2 + t.Draw(254))
			b[i] = c
		}
		s = string(b)
	case 4:
		s = strings.Repeat("x", 1+t.Draw(300))
	default:
		s = "0"
	}
	// unique suffix so that every echo is attributable to one request
	return s + "#" + itoa(uniq)
}

// c14: TestRequests with hostile IDs at generated positions of a logged-on history.
func c14(w *World) {
	role := []string{"acceptor", "initiator"}[w.W.Draw(2)]
	buf := []int{0, 1, 10}[w.W.Draw(3)]
	hb := []int{1, 5, 30}[w.W.Draw(3)]
	w.Cfg("role", role)
	w.Cfg("buf", buf)
	w.Cfg("hb", hb)
	sc := w.NewScript(ScriptCfg{Role: role, HandlerBuf: buf, ConnBuf: buf, HBMin: 1, HBMax: 60, HeartBtInt: hb, CloseTimeout: time.Second})
	sc.DoLogon(hb)
	s := sc.Sess()
	if s == nil || !s.IsLogged() {
		w.Inconclusive = "logon-failed"
		return
	}
	if w.W.Chance(1, 3) {
		sc.Shape = w.ShapeWith(w.W, 2+w.W.Draw(3), 0)
	}
	var wantIDs []string // in request order
	nreq := 0
	bursts := 1 + w.W.Draw(w.Deep(6))
	for b := 0; b < bursts && len(w.Viol) == 0; b++ {
		// one burst: several messages delivered back to back, then settle
		k := 1 + w.W.Draw(5)
		var exps []exp
		var stream []byte
		for j := 0; j < k; j++ {
			switch w.W.Pick(6, 2, 2, 2, 1) {
			case 0:
				nreq++
				id := hostileID(w.W, nreq)
				seq := sc.NextSeq()
				stream = append(stream, sc.MsgSeq("1", seq, F(TagTestReqID, id))...)
				exps = append(exps, exp{"echo", id, seq})
				wantIDs = append(wantIDs, id)
			case 1:
				stream = append(stream, sc.Msg("0")...)
				exps = append(exps, exp{kind: "none"})
			case 2:
				stream = append(stream, sc.Msg("D", F(11, "o"+itoa(nreq)), F(55, "EUR/USD"))...)
				exps = append(exps, exp{kind: "none"})
			case 3:
				// a Logon while logged on is answered by a Reject naming its sequence number
				seq := sc.NextSeq()
				stream = append(stream, sc.MsgSeq("A", seq, LogonFields(hb, "0", "", "")...)...)
				exps = append(exps, exp{"reject", "", seq})
			case 4:
				// a Heartbeat that echoes nothing we asked for (peer-side answer to a library TestRequest)
				stream = append(stream, sc.Msg("0", F(TagTestReqID, "1"))...)
				exps = append(exps, exp{kind: "none"})
			}
		}
		if k > 1 {
			w.Probe("burst")
		}
		replies := sc.Step(stream)
		if !sc.checkFraming(replies) {
			return
		}
		// replies that answer something, in wire order
		var got []exp
		for _, m := range replies {
			switch m.Type {
			case "0":
				if id, has := Get(m.Raw, TagTestReqID); has {
					got = append(got, exp{kind: "echo", id: id})
				}
			case "3":
				ref, _ := GetInt(m.Raw, TagRefSeqNum)
				got = append(got, exp{kind: "reject", seq: ref})
			}
		}
		var want []exp
		for _, e := range exps {
			if e.kind != "none" {
				want = append(want, e)
			}
		}
		// exactly-once, byte-identical, in request order
		gi := 0
		for _, e := range want {
			if e.kind != "echo" {
				// Rejects are C16's subject; here they only serve as order markers
				for gi < len(got) && !(got[gi].kind == "reject" && got[gi].seq == e.seq) {
					if got[gi].kind == "echo" {
						break
					}
					gi++
				}
				if gi < len(got) && got[gi].kind == "reject" && got[gi].seq == e.seq {
					gi++
				}
				continue
			}
			// next echo in the reply stream must be this one
			for gi < len(got) && got[gi].kind != "echo" {
				// a reply to something else sits before this echo: fine only if that something came earlier
				gi++
			}
			if gi >= len(got) {
				w.Violate("testrequest-not-echoed", classify(e.id), fmt.Sprintf("TestRequest 112=%q got no Heartbeat; replies were %q", e.id, typesOf(replies)))
				break
			}
			if got[gi].id != e.id {
				if containsID(want, got[gi].id) {
					w.Violate("echo-order", "reordered", fmt.Sprintf("Heartbeat 112=%q arrived where the echo of %q was due", got[gi].id, e.id))
				} else {
					w.Violate("echo-not-identical", classify(e.id), fmt.Sprintf("TestRequest 112=%q answered with 112=%q", e.id, got[gi].id))
				}
				break
			}
			gi++
		}
		// order against Rejects: the echo of request i precedes the Reject of a later message
		pos := map[string]int{}
		for i, g := range got {
			if g.kind == "echo" {
				pos["e"+g.id] = i
			} else {
				pos["r"+itoa(g.seq)] = i
			}
		}
		for i, a := range want {
			for _, b2 := range want[i+1:] {
				ka, kb := "r"+itoa(a.seq), "r"+itoa(b2.seq)
				if a.kind == "echo" {
					ka = "e" + a.id
				}
				if b2.kind == "echo" {
					kb = "e" + b2.id
				}
				pa, oka := pos[ka]
				pb, okb := pos[kb]
				if oka && okb && pa > pb && (a.kind == "echo" || b2.kind == "echo") {
					w.Violate("echo-order", "after-later-reply", fmt.Sprintf("reply to an earlier message (%s) was sent after the reply to a later one (%s)", ka, kb))
				}
			}
		}
		// count: every echo exactly once; nothing never requested
		seen := map[string]int{}
		for _, g := range got {
			if g.kind == "echo" {
				seen[g.id]++
			}
		}
		for _, id := range sortedKeys(seen) {
			n := seen[id]
			if !containsID(want, id) {
				w.Violate("echo-unrequested", classify(id), fmt.Sprintf("Heartbeat carries 112=%q which was not requested in this burst", id))
			} else if n != 1 {
				w.Violate("echo-count", classify(id), fmt.Sprintf("TestRequest 112=%q answered %d times", id, n))
			}
		}
		if w.W.Chance(1, 3) {
			simrt.Sleep(time.Duration(w.W.Draw(2*hb*1000)) * time.Millisecond)
			sc.Settle()
			for _, m := range sc.P.Take() {
				if id, has := Get(m.Raw, TagTestReqID); m.Type == "0" && has {
					w.Violate("echo-unrequested", "late", fmt.Sprintf("Heartbeat with 112=%q appeared while idle", id))
				}
			}
			if sc.P.EOF {
				break
			}
		}
	}
	if nreq > 0 {
		w.Probe("testrequests")
	}
	sc.Teardown()
}

type exp struct {
	kind string // "echo", "reject" or "none"
	id   string
	seq  int
}

func containsID(es []exp, id string) bool {
	for _, e := range es {
		if e.kind == "echo" && e.id == id {
			return true
		}
	}
	return false
}

// classify names the shape of an ID for violation keys (not its exact bytes).
func classify(id string) string {
	if i := strings.LastIndex(id, "#"); i >= 0 {
		id = id[:i]
	}
	switch {
	case len(id) > 3000:
		return "very-long"
	case len(id) > 64:
		return "long"
	case strings.ContainsAny(id, "="):
		return "contains-equals"
	case strings.TrimSpace(id) != id || id == "":
		return "whitespace"
	}
	for _, c := range []byte(id) {
		if c < 0x20 || c >= 0x7f {
			return "non-printable"
		}
	}
	return "plain"
}
