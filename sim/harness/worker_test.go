package harness

import (
	"encoding/json"
	"fmt"
	"os"
	"sort"
	"strconv"
	"strings"
	"testing"
	"time"
)

// WorkerOut is what one worker process reports to the driver.
type WorkerOut struct {
	Prop         string                   `json:"prop"`
	Seed         uint64                   `json:"seed"`
	From, To     int                      `json:"-"`
	Runs         int                      `json:"runs"`
	Violations   []ViolationRec           `json:"violations"`
	Inconclusive map[string]int           `json:"inconclusive"`
	Faults       map[string]int           `json:"faults"`
	Probes       map[string]int           `json:"probes"`
	Pairs        map[string]int           `json:"pairs"`
	States       []string                 `json:"states"`
	Steps        int64                    `json:"steps"`
	Switches     int64                    `json:"switches"`
	Preempts     int64                    `json:"preempts"`
	IdleJumps    int64                    `json:"idle_jumps"`
	SimSeconds   float64                  `json:"sim_seconds"`
	Nontrivial   []string                 `json:"nontrivial_hashes"` // distinct switch-sequence hashes of non-trivial runs
	AllDistinct  int                      `json:"all_distinct"`
	Foreign      int                      `json:"foreign_tasks"`
	Samples      []map[string]interface{} `json:"samples"`
	RunHashes    map[string]string        `json:"run_hashes,omitempty"`
	WallS        float64                  `json:"wall_s"`
	StoppedEarly bool                     `json:"stopped_early"`
	Partial      bool                     `json:"partial,omitempty"` // written before the batch ended (the worker may die later)
}

type ViolationRec struct {
	Violation
	Index     int    `json:"index"`
	Replay    string `json:"replay"`
	Minimised bool   `json:"minimised"`
	Reruns    int    `json:"reruns"`
}

// ReplayFile is the on-disk replay format.
type ReplayFile struct {
	Property  string `json:"property"`
	Tier      string `json:"tier"`
	Seed      uint64 `json:"seed"`
	Index     int    `json:"index"`
	Class     string `json:"class"`
	Key       string `json:"key"`
	Detail    string `json:"detail"`
	Tapes     Tapes  `json:"tapes"`
	Minimised bool   `json:"minimised"`
	// Regenerate: no tapes recorded (the run never ended: watchdog); replay draws them again from seed and index.
	Regenerate bool                   `json:"regenerate,omitempty"`
	RunHash    string                 `json:"run_hash"`
	Config     map[string]interface{} `json:"config"`
	Events     []string               `json:"events"`
	GoVersion  string                 `json:"go_version"`
}

func envInt(k string, d int) int {
	if v := os.Getenv(k); v != "" {
		n, err := strconv.Atoi(v)
		if err == nil {
			return n
		}
	}
	return d
}

func hasViol(r *RunResult, class, key string) *Violation {
	for i := range r.Viol {
		if r.Viol[i].Class == class && (key == "" || r.Viol[i].Key == key) {
			return &r.Viol[i]
		}
	}
	return nil
}

// minimise shrinks the three tapes while (class,key) persists.
func minimise(t *testing.T, prop *PropDef, seed uint64, idx int, tier string, tp Tapes, class, key string, budget int, wall time.Duration) (Tapes, int) {
	deadline := time.Now().Add(wall)
	reruns := 0
	try := func(c Tapes) bool {
		if reruns >= budget || time.Now().After(deadline) {
			return false
		}
		reruns++
		r := RunOne(t, prop, seed, idx, tier, &c, false)
		return hasViol(r, class, key) != nil
	}
	clone := func(x Tapes) Tapes {
		return Tapes{W: append([]uint32(nil), x.W...), F: append([]uint32(nil), x.F...), S: append([]uint32(nil), x.S...)}
	}
	get := func(x *Tapes, which int) *[]uint32 {
		switch which {
		case 0:
			return &x.S
		case 1:
			return &x.F
		}
		return &x.W
	}
	cur := clone(tp)
	// the replay must reproduce to begin with
	if !try(cur) {
		return tp, reruns
	}
	for which := 0; which < 3; which++ {
		// 1. truncate (rest = zeros) by binary search on length
		lo, hi := 0, len(*get(&cur, which))
		for lo < hi {
			mid := (lo + hi) / 2
			c := clone(cur)
			*get(&c, which) = (*get(&c, which))[:mid]
			if try(c) {
				hi = mid
				cur = c
			} else {
				lo = mid + 1
			}
		}
		// 2. zero chunks, halving the chunk size
		for size := len(*get(&cur, which)); size >= 1; size /= 2 {
			v := *get(&cur, which)
			for off := 0; off < len(v); off += size {
				allZero := true
				for i := off; i < off+size && i < len(v); i++ {
					if v[i] != 0 {
						allZero = false
					}
				}
				if allZero {
					continue
				}
				c := clone(cur)
				cv := *get(&c, which)
				for i := off; i < off+size && i < len(cv); i++ {
					cv[i] = 0
				}
				if try(c) {
					cur = c
					v = *get(&cur, which)
				}
			}
			if size == 1 {
				break
			}
		}
		// 3. lower individual values
		v := *get(&cur, which)
		for i := range v {
			for v[i] > 0 {
				c := clone(cur)
				(*get(&c, which))[i] = v[i] / 2
				if !try(c) {
					break
				}
				cur = c
				v = *get(&cur, which)
			}
		}
		// drop trailing zeros
		v = *get(&cur, which)
		for len(v) > 0 && v[len(v)-1] == 0 {
			v = v[:len(v)-1]
		}
		*get(&cur, which) = v
	}
	return cur, reruns
}

func writeReplay(dir string, prop *PropDef, seed uint64, tier string, r *RunResult, v Violation, tp Tapes, min bool, n int) string {
	os.MkdirAll(dir, 0o755)
	path := fmt.Sprintf("%s/%s-%d-%d-%d.json", dir, prop.ID, seed, r.Index, n)
	rf := ReplayFile{Property: prop.ID, Tier: tier, Seed: seed, Index: r.Index, Class: v.Class, Key: v.Key, Detail: v.Detail,
		Tapes: tp, Minimised: min, RunHash: fmt.Sprintf("%016x", r.Hash), Config: r.Config, Events: r.Events, GoVersion: goVersion()}
	b, _ := json.MarshalIndent(rf, "", " ")
	os.WriteFile(path, b, 0o644)
	return path
}

func TestWorker(t *testing.T) {
	id := os.Getenv("VERIF_PROP")
	if id == "" {
		t.Skip("VERIF_PROP not set")
	}
	prop := Props[id]
	if prop == nil {
		fmt.Fprintf(os.Stderr, "unknown property scenario %q\n", id)
		os.Exit(2)
	}
	seed, _ := strconv.ParseUint(os.Getenv("VERIF_SEED"), 10, 64)
	tier := os.Getenv("VERIF_TIER")
	if tier == "" {
		tier = "quick"
	}
	outPath := os.Getenv("VERIF_OUT")
	replayDir := os.Getenv("VERIF_REPLAY_DIR")
	if replayDir == "" {
		replayDir = "replays"
	}

	if rp := os.Getenv("VERIF_REPLAY"); rp != "" {
		b, err := os.ReadFile(rp)
		if err != nil {
			fmt.Fprintln(os.Stderr, err)
			os.Exit(2)
		}
		var rf ReplayFile
		if err := json.Unmarshal(b, &rf); err != nil {
			fmt.Fprintln(os.Stderr, err)
			os.Exit(2)
		}
		tapes := &rf.Tapes
		if rf.Regenerate {
			tapes = nil
		}
		r := RunOne(t, prop, rf.Seed, rf.Index, rf.Tier, tapes, os.Getenv("VERIF_TRACE") != "")
		out := map[string]interface{}{"violations": r.Viol, "reproduced": hasViol(r, rf.Class, rf.Key) != nil, "run_hash": fmt.Sprintf("%016x", r.Hash),
			"abort": r.Abort, "panics": r.Panics, "events": r.Events, "inconclusive": r.Inconclusive}
		jb, _ := json.MarshalIndent(out, "", " ")
		if outPath != "" {
			os.WriteFile(outPath, jb, 0o644)
		} else {
			fmt.Println(string(jb))
		}
		return
	}

	from, to := envInt("VERIF_FROM", 0), envInt("VERIF_TO", 1)
	deadline := time.Now().Add(time.Duration(envInt("VERIF_WALL_S", 3600)) * time.Second)
	maxViol := envInt("VERIF_MAXVIOL", 3)
	wantHashes := os.Getenv("VERIF_HASHES") != ""
	out := &WorkerOut{Prop: id, Seed: seed, Inconclusive: map[string]int{}, Faults: map[string]int{}, Probes: map[string]int{}, Pairs: map[string]int{}}
	if wantHashes {
		out.RunHashes = map[string]string{}
	}
	states := map[string]bool{}
	nontriv := map[uint64]bool{}
	all := map[uint64]bool{}
	seenViol := map[string]bool{}
	known := map[string]bool{} // recorded findings (class, key): reported like any violation, but not minimised again
	for _, k := range strings.Split(os.Getenv("VERIF_KNOWN"), "\x1e") {
		if p := strings.SplitN(k, "\x1f", 2); len(p) == 2 {
			known[p[0]+"|"+p[1]] = true
		}
	}
	nKnown := 0
	start := time.Now()
	for idx := from; idx < to; idx++ {
		if time.Now().After(deadline) {
			out.StoppedEarly = true
			break
		}
		r := RunOne(t, prop, seed, idx, tier, nil, false)
		out.Runs++
		out.Steps += r.Steps
		out.Switches += r.Switches
		out.Preempts += r.Preempts
		out.IdleJumps += r.IdleJumps
		out.SimSeconds += r.SimTime.Seconds()
		out.Foreign += r.Foreign
		for k, v := range r.Faults {
			out.Faults[k] += v
		}
		for k, v := range r.Probes {
			out.Probes[k] += v
		}
		for k, v := range r.Pairs {
			out.Pairs[k] += v
		}
		for k := range r.States {
			states[k] = true
		}
		all[r.SwHash] = true
		if r.Nontrivial || r.Preempts > 0 {
			nontriv[r.SwHash] = true
		}
		if wantHashes {
			out.RunHashes[strconv.Itoa(idx)] = fmt.Sprintf("%016x", r.Hash)
		}
		if r.Inconclusive != "" && len(r.Viol) == 0 {
			out.Inconclusive[r.Inconclusive]++
		}
		if len(out.Samples) < 3 && (idx-from)%7 == 0 {
			out.Samples = append(out.Samples, map[string]interface{}{"index": idx, "config": r.Config, "events": r.Events,
				"steps": r.Steps, "sim_time": r.SimTime.String(), "faults": r.Faults})
		}
		for _, v := range r.Viol {
			k := v.Class + "|" + v.Key
			if seenViol[k] {
				continue
			}
			seenViol[k] = true
			if known[k] {
				nKnown++
				path := writeReplay(replayDir, prop, seed, tier, r, v, r.Tapes, false, len(out.Violations))
				out.Violations = append(out.Violations, ViolationRec{Violation: v, Index: idx, Replay: path})
				continue
			}
			tp, reruns := minimise(t, prop, seed, idx, tier, r.Tapes, v.Class, v.Key, envInt("VERIF_SHRINK_RERUNS", 1500), time.Duration(envInt("VERIF_SHRINK_S", 45))*time.Second)
			min := true
			// the minimised tape must reproduce in this process; otherwise keep the original
			mr := RunOne(t, prop, seed, idx, tier, &tp, false)
			if hasViol(mr, v.Class, v.Key) == nil {
				tp, min, mr = r.Tapes, false, r
			}
			vv := v
			if x := hasViol(mr, v.Class, v.Key); x != nil {
				vv = *x
			}
			path := writeReplay(replayDir, prop, seed, tier, mr, vv, tp, min, len(out.Violations))
			out.Violations = append(out.Violations, ViolationRec{Violation: vv, Index: idx, Replay: path, Minimised: min, Reruns: reruns})
			// a violation found is kept even if this process dies in a later run (hang, kill, out of memory)
			if outPath != "" {
				out.Partial = true
				if b, err := json.Marshal(out); err == nil {
					_ = os.WriteFile(outPath, b, 0o644)
				}
				out.Partial = false
			}
		}
		if len(seenViol)-nKnown >= maxViol {
			out.StoppedEarly = true
			break
		}
	}
	for k := range states {
		out.States = append(out.States, k)
	}
	sort.Strings(out.States)
	for h := range nontriv {
		out.Nontrivial = append(out.Nontrivial, fmt.Sprintf("%016x", h))
	}
	sort.Strings(out.Nontrivial)
	out.AllDistinct = len(all)
	out.WallS = time.Since(start).Seconds()
	b, _ := json.Marshal(out)
	if outPath != "" {
		if err := os.WriteFile(outPath, b, 0o644); err != nil {
			fmt.Fprintln(os.Stderr, err)
			os.Exit(2)
		}
	} else {
		fmt.Println(string(b))
	}
}
