package harness

import (
	"context"
	"errors"
	"strconv"
	"sync"
	"time"

	simplefixgo "github.com/b2broker/simplefix-go"
	"github.com/b2broker/simplefix-go/fix"
	"github.com/b2broker/simplefix-go/session"
	"github.com/b2broker/simplefix-go/session/messages"
	"github.com/b2broker/simplefix-go/storages/memory"
	fixgen "github.com/b2broker/simplefix-go/tests/fix44"
	"github.com/b2broker/simplefix-go/utils"

	"verif/simrt"
)

//go:norace
func atoi(s string) int {
	n, err := strconv.Atoi(s)
	if err != nil {
		panic(err)
	}
	return n
}

// Tag numbers, taken from the FIX 4.4 specification (not from the library).
const (
	TagBeginSeqNo   = 7
	TagEndSeqNo     = 16
	TagMsgSeqNum    = 34
	TagMsgType      = 35
	TagRefSeqNum    = 45
	TagSenderCompID = 49
	TagSendingTime  = 52
	TagTargetCompID = 56
	TagText         = 58
	TagEncrypt      = 98
	TagHeartBtInt   = 108
	TagTestReqID    = 112
	TagRefTagID     = 371
	TagRefMsgType   = 372
	TagRejectReason = 373
	TagUsername     = 553
	TagPassword     = 554
)

// NewOptsWithSequenceReset is NewOpts plus the optional SequenceReset builder.
func NewOptsWithSequenceReset() *session.Opts {
	o := NewOpts()
	o.MessageBuilders.SequenceResetBuilder = fixgen.SequenceReset{}.New()
	return o
}

// NewOpts wires a session the way the repository's tests and examples do.
//
//go:norace
func NewOpts() *session.Opts {
	return &session.Opts{
		MessageBuilders: session.MessageBuilders{
			HeaderBuilder:        fixgen.Header{}.New(),
			TrailerBuilder:       fixgen.Trailer{}.New(),
			LogonBuilder:         fixgen.Logon{}.New(),
			LogoutBuilder:        fixgen.Logout{}.New(),
			RejectBuilder:        fixgen.Reject{}.New(),
			HeartbeatBuilder:     fixgen.Heartbeat{}.New(),
			TestRequestBuilder:   fixgen.TestRequest{}.New(),
			ResendRequestBuilder: fixgen.ResendRequest{}.New(),
		},
		Tags: &messages.Tags{
			MsgType:         atoi(fixgen.FieldMsgType),
			MsgSeqNum:       atoi(fixgen.FieldMsgSeqNum),
			HeartBtInt:      atoi(fixgen.FieldHeartBtInt),
			EncryptedMethod: atoi(fixgen.FieldEncryptMethod),
		},
		AllowedEncryptedMethods: map[string]struct{}{
			fixgen.EnumEncryptMethodNoneother: {},
		},
		SessionErrorCodes: &messages.SessionErrorCodes{
			InvalidTagNumber:         atoi(fixgen.EnumSessionRejectReasonInvalidtagnumber),
			RequiredTagMissing:       atoi(fixgen.EnumSessionRejectReasonRequiredtagmissing),
			UndefinedTag:             atoi(fixgen.EnumSessionRejectReasonUndefinedtag),
			TagSpecialWithoutValue:   atoi(fixgen.EnumSessionRejectReasonTagspecifiedwithoutavalue),
			IncorrectValue:           atoi(fixgen.EnumSessionRejectReasonValueisincorrectoutofrangeforthistag),
			IncorrectDataFormatValue: atoi(fixgen.EnumSessionRejectReasonIncorrectdataformatforvalue),
			DecryptionProblem:        atoi(fixgen.EnumSessionRejectReasonDecryptionproblem),
			SignatureProblem:         atoi(fixgen.EnumSessionRejectReasonSignatureproblem),
			CompIDProblem:            atoi(fixgen.EnumSessionRejectReasonCompidproblem),
			Other:                    atoi(fixgen.EnumSessionRejectReasonOther),
		},
	}
}

// ---- storage wrapper: the real memory.Storage underneath, with a call log,
// injected delays and injected Save failures ----

type StoreCall struct {
	Seq    uint64
	Op     string
	SeqNum int
	Err    bool
	Type   string
}

type Store struct {
	w        *World
	Real     *memory.Storage
	Calls    []StoreCall
	FailSave map[int]bool // k-th Save call (1-based) fails
	FailType string       // one-shot: the next Save of a message of this type fails
	nsave    int
	Delay    func(op string) // optional: yields / sleeps, drawn by the scenario
	Quiet    bool            // do not log calls
}

var errInjectedSave = errors.New("injected: message store is unavailable")

//go:norace
func NewStore(w *World) *Store {
	return &Store{w: w, Real: memory.NewStorage(), FailSave: map[int]bool{}}
}

//go:norace
func (s *Store) delay(op string) {
	simrt.Yield("store." + op)
	if s.Delay != nil {
		s.Delay(op)
	}
}

//go:norace
func (s *Store) log(op string, n int, err error, typ string) {
	if s.Quiet {
		return
	}
	simrt.RaceDisable()
	s.Calls = append(s.Calls, StoreCall{Seq: s.w.Sched.NextSeq(), Op: op, SeqNum: n, Err: err != nil, Type: typ})
	simrt.RaceEnable()
}

//go:norace
func (s *Store) GetNextSeqNum(id fix.StorageID) (int, error) {
	s.delay("GetNextSeqNum")
	n, err := s.Real.GetNextSeqNum(id)
	s.log("next:"+string(id.Side), n, err, "")
	s.delay("GetNextSeqNum'")
	return n, err
}

//go:norace
func (s *Store) GetCurrSeqNum(id fix.StorageID) (int, error) {
	s.delay("GetCurrSeqNum")
	return s.Real.GetCurrSeqNum(id)
}

//go:norace
func (s *Store) ResetSeqNum(id fix.StorageID) error {
	s.delay("ResetSeqNum")
	return s.Real.ResetSeqNum(id)
}

//go:norace
func (s *Store) SetSeqNum(id fix.StorageID, n int) error {
	s.delay("SetSeqNum")
	return s.Real.SetSeqNum(id, n)
}

//go:norace
func (s *Store) Save(id fix.StorageID, msg simplefixgo.SendingMessage, n int) error {
	s.delay("Save")
	simrt.RaceDisable()
	s.nsave++
	k := s.nsave
	simrt.RaceEnable()
	failType := s.FailType != "" && s.FailType == msg.MsgType()
	if failType {
		s.FailType = ""
	}
	if s.FailSave[k] || failType {
		s.w.Fault("store_save_failed")
		s.log("save", n, errInjectedSave, msg.MsgType())
		return errInjectedSave
	}
	err := s.Real.Save(id, msg, n)
	s.log("save", n, err, msg.MsgType())
	s.delay("Save'")
	return err
}

//go:norace
func (s *Store) Messages(id fix.StorageID, from, to int) ([]simplefixgo.SendingMessage, error) {
	s.delay("Messages")
	return s.Real.Messages(id, from, to)
}

// ---- acceptor side ----

type AccCfg struct {
	HandlerBuf   int
	WriteTimeout time.Duration
	HBMin, HBMax int
	LogonTimeout time.Duration
	CloseTimeout time.Duration
	Approve      func(*session.LogonSettings) error
	Store        *Store                        // shared by every session, as in the repository's tests
	RawStore     *memory.Storage               // if set: the bundled store itself, without the harness wrapper
	NewCS        func() session.CounterStorage // if set: every accepted session gets a counter store of its own (the message store stays shared)
	OnSession    func(as *AccSession)
	Opts         func() *session.Opts
}

type AccSession struct {
	H          simplefixgo.AcceptorHandler
	S          *session.Session
	Logons     int
	Logouts    int
	Disconnect int
	Stopped    int
	Connects   int
	HDisc      int
}

type AccSide struct {
	// pub publishes accepted sessions to application tasks through synchronisation the race
	// detector can see (as a real application hands a session to its goroutines); it orders
	// nothing but that hand-off.
	pub      sync.Mutex
	w        *World
	L        *Listener
	A        *simplefixgo.Acceptor
	Store    *Store
	Sess     []*AccSession
	ServeErr error
	Served   bool
}

//go:norace
func (w *World) StartAcceptor(cfg AccCfg) *AccSide {
	as := &AccSide{w: w, L: w.Net.Listen(), Store: cfg.Store}
	if as.Store == nil {
		as.Store = NewStore(w)
	}
	if cfg.Approve == nil {
		cfg.Approve = func(*session.LogonSettings) error { return nil }
	}
	if cfg.LogonTimeout == 0 {
		cfg.LogonTimeout = 30 * time.Second
	}
	if cfg.HBMin == 0 {
		cfg.HBMin, cfg.HBMax = 1, 60
	}
	if cfg.Opts == nil {
		cfg.Opts = NewOpts
	}
	factory := simplefixgo.NewAcceptorHandlerFactory(fixgen.FieldMsgType, cfg.HandlerBuf)
	var cs session.CounterStorage = as.Store
	var ms session.MessageStorage = as.Store
	if cfg.RawStore != nil {
		cs, ms = cfg.RawStore, cfg.RawStore
	}
	as.A = simplefixgo.NewAcceptor(as.L, factory, cfg.WriteTimeout, func(h simplefixgo.AcceptorHandler) {
		cs := cs
		if cfg.NewCS != nil {
			cs = cfg.NewCS()
		}
		s, err := session.NewAcceptorSession(cfg.Opts(), h, &session.LogonSettings{
			LogonTimeout:  cfg.LogonTimeout,
			CloseTimeout:  cfg.CloseTimeout,
			HeartBtLimits: &session.IntLimits{Min: cfg.HBMin, Max: cfg.HBMax},
		}, cfg.Approve, cs, ms)
		if err != nil {
			panic("harness: NewAcceptorSession: " + err.Error())
		}
		sess := &AccSession{H: h, S: s}
		s.OnChangeState(utils.EventLogon, func() bool { sess.Logons++; w.Logf("ev", "acceptor session logon"); return true })
		s.OnChangeState(utils.EventLogout, func() bool { sess.Logouts++; w.Logf("ev", "acceptor session logout"); return true })
		s.OnChangeState(utils.EventDisconnect, func() bool { sess.Disconnect++; w.Logf("ev", "acceptor session disconnect"); return true })
		h.OnStopped(func() bool { sess.Stopped++; w.Logf("ev", "acceptor handler stopped"); return true })
		h.OnDisconnect(func() bool { sess.HDisc++; w.Logf("ev", "acceptor handler disconnect"); return true })
		h.OnConnect(func() bool { sess.Connects++; return true })
		if err := s.Run(); err != nil {
			panic("harness: acceptor session Run: " + err.Error())
		}
		as.pub.Lock()
		as.Sess = append(as.Sess, sess)
		as.pub.Unlock()
		if cfg.OnSession != nil {
			cfg.OnSession(sess)
		}
	})
	simrt.GoHarness("acceptor.ListenAndServe", func() {
		as.ServeErr = as.A.ListenAndServe()
		as.Served = true
		w.Logf("ev", "ListenAndServe returned: %v", as.ServeErr)
	})
	return as
}

// ---- initiator side ----

type InitCfg struct {
	HandlerBuf    int
	ConnBuf       int
	WriteDeadline time.Duration
	HeartBtInt    int
	Sender        string
	Target        string
	Username      string
	Password      string
	CloseTimeout  time.Duration
	Store         *Store
	RawStore      *memory.Storage
	Opts          func() *session.Opts
	BeforeRun     func(is *InitSide)
}

type InitSide struct {
	w          *World
	C          *Conn
	H          *simplefixgo.DefaultHandler
	I          *simplefixgo.Initiator
	S          *session.Session
	Store      *Store
	ServeErr   error
	Served     bool
	Logons     int
	Logouts    int
	Disconnect int
	Stopped    int
	HDisc      int
}

//go:norace
func (w *World) StartInitiator(cfg InitCfg, libEnd *Conn) *InitSide {
	is := &InitSide{w: w, C: libEnd, Store: cfg.Store}
	if is.Store == nil {
		is.Store = NewStore(w)
	}
	if cfg.Opts == nil {
		cfg.Opts = NewOpts
	}
	if cfg.Sender == "" {
		cfg.Sender, cfg.Target = "Client", "Server"
	}
	is.H = simplefixgo.NewInitiatorHandler(context.Background(), fixgen.FieldMsgType, cfg.HandlerBuf)
	is.I = simplefixgo.NewInitiator(libEnd, is.H, cfg.ConnBuf, cfg.WriteDeadline)
	var cs session.CounterStorage = is.Store
	var ms session.MessageStorage = is.Store
	if cfg.RawStore != nil {
		cs, ms = cfg.RawStore, cfg.RawStore
	}
	s, err := session.NewInitiatorSession(is.H, cfg.Opts(), &session.LogonSettings{
		TargetCompID:  cfg.Target,
		SenderCompID:  cfg.Sender,
		HeartBtInt:    cfg.HeartBtInt,
		EncryptMethod: fixgen.EnumEncryptMethodNoneother,
		Username:      cfg.Username,
		Password:      cfg.Password,
		CloseTimeout:  cfg.CloseTimeout,
	}, cs, ms)
	if err != nil {
		panic("harness: NewInitiatorSession: " + err.Error())
	}
	is.S = s
	s.OnChangeState(utils.EventLogon, func() bool { is.Logons++; w.Logf("ev", "initiator session logon"); return true })
	s.OnChangeState(utils.EventLogout, func() bool { is.Logouts++; w.Logf("ev", "initiator session logout"); return true })
	s.OnChangeState(utils.EventDisconnect, func() bool { is.Disconnect++; w.Logf("ev", "initiator session disconnect"); return true })
	is.H.OnStopped(func() bool { is.Stopped++; w.Logf("ev", "initiator handler stopped"); return true })
	is.H.OnDisconnect(func() bool { is.HDisc++; w.Logf("ev", "initiator handler disconnect"); return true })
	if cfg.BeforeRun != nil {
		cfg.BeforeRun(is)
	}
	serve := func() {
		simrt.GoHarness("initiator.Serve", func() {
			is.ServeErr = is.I.Serve()
			is.Served = true
			w.Logf("ev", "Serve returned: %v", is.ServeErr)
		})
	}
	if cfg.HandlerBuf == 0 {
		// with an unbuffered handler the Logon can only be handed off once the writer loop runs
		serve()
		if err := s.Run(); err != nil {
			panic("harness: initiator session Run: " + err.Error())
		}
	} else {
		if err := s.Run(); err != nil {
			panic("harness: initiator session Run: " + err.Error())
		}
		serve()
	}
	return is
}

// ---- helpers for scripted peers ----

// PeerClock formats the simulated time as a FIX timestamp.
//
//go:norace
func PeerClock() string { return time.Now().UTC().Format("20060102-15:04:05.000") }

// AdminMsg builds a message from a scripted peer: standard header then extra fields.
//
//go:norace
func AdminMsg(typ string, seq int, sender, target string, extra ...Field) []Field {
	fs := []Field{{Tag: "35", Val: typ}, F(TagSenderCompID, sender), F(TagTargetCompID, target), FI(TagMsgSeqNum, seq), F(TagSendingTime, PeerClock())}
	return append(fs, extra...)
}

// Sessions returns the accepted sessions, acquired through the visible publication lock.
func (as *AccSide) Sessions() []*AccSession {
	as.pub.Lock()
	defer as.pub.Unlock()
	return append([]*AccSession(nil), as.Sess...)
}
