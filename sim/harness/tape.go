package harness

import "strconv"

// rng is splitmix64: tiny, seedable, identical everywhere.
type rng struct{ s uint64 }

//go:norace
func (r *rng) next() uint64 {
	r.s += 0x9e3779b97f4a7c15
	z := r.s
	z = (z ^ (z >> 30)) * 0xbf58476d1ce4e5b9
	z = (z ^ (z >> 27)) * 0x94d049bb133111eb
	return z ^ (z >> 31)
}

//go:norace
func (r *rng) intn(n int) int {
	if n <= 1 {
		return 0
	}
	return int(r.next() % uint64(n))
}

//go:norace
func mixSeed(a, b, c uint64) uint64 {
	r := rng{s: a ^ (b * 0x9e3779b97f4a7c15) ^ (c * 0xc2b2ae3d27d4eb4f)}
	r.next()
	return r.next()
}

// Tape is a recorded sequence of choices. In generate mode values come from the
// PRNG (through a distribution chosen by the caller) and are appended; in replay
// mode they are read back (0 once the tape is exhausted, clipped to the range),
// which is what makes truncation and zeroing meaningful shrink steps.
type Tape struct {
	r      rng
	Rec    []uint32
	replay []uint32
	pos    int
	isRep  bool
}

//go:norace
func NewTape(seed uint64) *Tape { return &Tape{r: rng{s: seed}} }

//go:norace
func ReplayTape(vals []uint32) *Tape { return &Tape{replay: vals, isRep: true} }

// DrawWith returns a value in [0,n); gen shapes the distribution in generate mode.
//
//go:norace
func (t *Tape) DrawWith(n int, gen func(r *rng) int) int {
	if n <= 1 {
		return 0
	}
	var v int
	if t.isRep {
		if t.pos < len(t.replay) {
			v = int(t.replay[t.pos])
		}
		t.pos++
		if v >= n {
			v = v % n
		}
	} else {
		v = gen(&t.r)
		if v < 0 || v >= n {
			v = 0
		}
	}
	t.Rec = append(t.Rec, uint32(v))
	return v
}

// Draw is uniform on [0,n).
//
//go:norace
func (t *Tape) Draw(n int) int { return t.DrawWith(n, func(r *rng) int { return r.intn(n) }) }

// Range is uniform on [lo,hi].
//
//go:norace
func (t *Tape) Range(lo, hi int) int {
	if hi <= lo {
		return lo
	}
	return lo + t.Draw(hi-lo+1)
}

// Chance is true with probability num/den; replay value 0 means false.
//
//go:norace
func (t *Tape) Chance(num, den int) bool {
	return t.DrawWith(2, func(r *rng) int {
		if r.intn(den) < num {
			return 1
		}
		return 0
	}) == 1
}

// Pick chooses an index with the given weights; index 0 is the boring choice.
//
//go:norace
func (t *Tape) Pick(weights ...int) int {
	return t.DrawWith(len(weights), func(r *rng) int {
		tot := 0
		for _, w := range weights {
			tot += w
		}
		x := r.intn(tot)
		for i, w := range weights {
			if x < w {
				return i
			}
			x -= w
		}
		return 0
	})
}

//go:norace
func (t *Tape) String() string {
	b := make([]byte, 0, len(t.Rec)*2)
	for i, v := range t.Rec {
		if i > 0 {
			b = append(b, ',')
		}
		b = strconv.AppendUint(b, uint64(v), 10)
	}
	return string(b)
}

// schedChooser adapts the schedule tape to simrt.Chooser with a per-run policy.
type schedChooser struct {
	t *Tape
	// stickyDen: the current task continues with probability (stickyDen-1)/stickyDen
	// (1 = uniform random among runnable tasks).
	stickyDen int
	// budget of preemptions (-1 unlimited): after it is used up the current task
	// always continues while runnable (bounded-preemption exploration).
	preemptBudget int
}

//go:norace
func (c *schedChooser) Choose(kind string, n int) int {
	switch kind {
	case "task":
		return c.t.DrawWith(n, func(r *rng) int {
			if c.preemptBudget == 0 {
				return 0
			}
			if c.stickyDen > 1 && r.intn(c.stickyDen) != 0 {
				return 0
			}
			v := r.intn(n)
			if v != 0 && c.preemptBudget > 0 {
				c.preemptBudget--
			}
			return v
		})
	default:
		return c.t.Draw(n)
	}
}
