package harness

import "strconv"

// rng is splitmix64: tiny, seedable, identical everywhere.
type rng struct{ s uint64 }

//go:norace
func (r *rng) next() uint64 {
	r.s += 0x9e3779b97f4a7c15
	z := r.s
	z = (z ^ (z >> 30)) * 0xbf58476d1ce4e5b9
	z = (z ^ (z >> 27)) * 0x94d049bb133111eb
	return z ^ (z >> 31)
}

//go:norace
func (r *rng) intn(n int) int {
	if n <= 1 {
		return 0
	}
	return int(r.next() % uint64(n))
}

//go:norace
func mixSeed(a, b, c uint64) uint64 {
	r := rng{s: a ^ (b * 0x9e3779b97f4a7c15) ^ (c * 0xc2b2ae3d27d4eb4f)}
	r.next()
	return r.next()
}

// Tape is a recorded sequence of choices. In generate mode values come from the
// PRNG (through a distribution chosen by the caller) and are appended; in replay
// mode they are read back (0 once the tape is exhausted, clipped to the range),
// which is what makes truncation and zeroing meaningful shrink steps.
type Tape struct {
	r      rng
	Rec    []uint32
	replay []uint32
	pos    int
	isRep  bool
}

//go:norace
func NewTape(seed uint64) *Tape { return &Tape{r: rng{s: seed}} }

//go:norace
func ReplayTape(vals []uint32) *Tape { return &Tape{replay: vals, isRep: true} }

// DrawWith returns a value in [0,n); gen shapes the distribution in generate mode.
//
//go:norace
func (t *Tape) DrawWith(n int, gen func(r *rng) int) int {
	if n <= 1 {
		return 0
	}
	var v int
	if t.isRep {
		if t.pos < len(t.replay) {
			v = int(t.replay[t.pos])
		}
		t.pos++
		if v >= n {
			v = v % n
		}
	} else {
		v = gen(&t.r)
		if v < 0 || v >= n {
			v = 0
		}
	}
	t.Rec = append(t.Rec, uint32(v))
	return v
}

// Draw is uniform on [0,n).
//
//go:norace
func (t *Tape) Draw(n int) int { return t.DrawWith(n, func(r *rng) int { return r.intn(n) }) }

// Range is uniform on [lo,hi].
//
//go:norace
func (t *Tape) Range(lo, hi int) int {
	if hi <= lo {
		return lo
	}
	return lo + t.Draw(hi-lo+1)
}

// Chance is true with probability num/den; replay value 0 means false.
//
//go:norace
func (t *Tape) Chance(num, den int) bool {
	return t.DrawWith(2, func(r *rng) int {
		if r.intn(den) < num {
			return 1
		}
		return 0
	}) == 1
}

// Pick chooses an index with the given weights; index 0 is the boring choice.
//
//go:norace
func (t *Tape) Pick(weights ...int) int {
	return t.DrawWith(len(weights), func(r *rng) int {
		tot := 0
		for _, w := range weights {
			tot += w
		}
		x := r.intn(tot)
		for i, w := range weights {
			if x < w {
				return i
			}
			x -= w
		}
		return 0
	})
}

//go:norace
func (t *Tape) String() string {
	b := make([]byte, 0, len(t.Rec)*2)
	for i, v := range t.Rec {
		if i > 0 {
			b = append(b, ',')
		}
		b = strconv.AppendUint(b, uint64(v), 10)
	}
	return string(b)
}

// schedChooser adapts the schedule tape to simrt.Chooser with a per-run policy.
type schedChooser struct {
	t *Tape
	// stickyDen: the current task continues with probability (stickyDen-1)/stickyDen
	// (1 = uniform random among runnable tasks).
	stickyDen int
	// budget of preemptions (-1 unlimited): after it is used up the current task
	// always continues while runnable (bounded-preemption exploration).
	preemptBudget int
	// pct: priority scheduling (after PCT, Burckhardt et al. 2010). Every task has a random priority
	// derived from (pctSeed, task id); the runnable task with the highest priority runs; at each of
	// the drawn change points (counted in scheduling decisions) the task that would run is demoted
	// below every other task. A low-priority task thus stands still for as long as anything else
	// can run: the "slow thread" that sticky and uniform policies practically never produce.
	pct       bool
	pctSeed   uint64
	pctPoints map[int]bool
	pctStep   int
	pctLow    map[string]uint64 // demoted tasks: id -> priority (small values, decreasing)
	pctNext   uint64
}

//go:norace
func (c *schedChooser) prio(id string) uint64 {
	if p, ok := c.pctLow[id]; ok {
		return p
	}
	h := c.pctSeed
	for i := 0; i < len(id); i++ {
		h = (h ^ uint64(id[i])) * 0x100000001b3
	}
	h ^= h >> 29
	h *= 0xbf58476d1ce4e5b9
	h ^= h >> 32
	return h | 1<<63 // above every demoted task
}

// ChooseTask implements simrt.TaskChooser.
//
//go:norace
func (c *schedChooser) ChooseTask(kind string, ids []string) int {
	if !c.pct {
		return c.Choose(kind, len(ids))
	}
	return c.t.DrawWith(len(ids), func(r *rng) int {
		c.pctStep++
		best := 0
		for i := range ids {
			if c.prio(ids[i]) > c.prio(ids[best]) {
				best = i
			}
		}
		if c.pctPoints[c.pctStep] {
			// change point: demote the task that would run, run the next best
			c.pctNext--
			c.pctLow[ids[best]] = c.pctNext
			best = 0
			for i := range ids {
				if c.prio(ids[i]) > c.prio(ids[best]) {
					best = i
				}
			}
		}
		return best
	})
}

//go:norace
func newPCT(seed uint64) *schedChooser {
	r := rng{s: seed ^ 0x9c7}
	c := &schedChooser{pct: true, pctSeed: r.next(), pctPoints: map[int]bool{}, pctLow: map[string]uint64{}, pctNext: 1 << 62, stickyDen: 1, preemptBudget: -1}
	horizon := []int{30, 100, 300, 1000, 5000}[r.intn(5)]
	for d := r.intn(4); d > 0; d-- {
		c.pctPoints[1+r.intn(horizon)] = true
	}
	return c
}

//go:norace
func (c *schedChooser) Choose(kind string, n int) int {
	switch kind {
	case "task":
		return c.t.DrawWith(n, func(r *rng) int {
			if c.preemptBudget == 0 {
				return 0
			}
			if c.stickyDen > 1 && r.intn(c.stickyDen) != 0 {
				return 0
			}
			v := r.intn(n)
			if v != 0 && c.preemptBudget > 0 {
				c.preemptBudget--
			}
			return v
		})
	default:
		return c.t.Draw(n)
	}
}
