module verif/harness

go 1.26

require (
	github.com/b2broker/simplefix-go v0.0.0
	verif/simrt v0.0.0
)

replace github.com/b2broker/simplefix-go => ../repo

replace verif/simrt => ../simrt
