package harness

import (
	"fmt"
	"runtime/debug"
	"strings"
	"time"

	"github.com/b2broker/simplefix-go/fix"
	"github.com/b2broker/simplefix-go/fix/encoding"

	simplefixgo "github.com/b2broker/simplefix-go"

	"verif/simrt"
)

func init() {
	Register(&PropDef{ID: "C11", Run: c11, MaxSim: time.Hour, PanicIsViolation: true})
}

// panicSite extracts the innermost library function from a panic stack.
func panicSite(stack string) string {
	lines := strings.Split(stack, "\n")
	seenPanic := false
	for _, l := range lines {
		if strings.HasPrefix(l, "panic(") {
			seenPanic = true
			continue
		}
		if !seenPanic {
			continue
		}
		if strings.HasPrefix(l, "github.com/b2broker/simplefix-go") {
			if i := strings.LastIndex(l, "("); i > 0 {
				l = l[:i]
			}
			return strings.TrimPrefix(l, "github.com/b2broker/simplefix-go")
		}
	}
	for _, l := range lines {
		if strings.HasPrefix(l, "github.com/b2broker/simplefix-go") {
			if i := strings.LastIndex(l, "("); i > 0 {
				l = l[:i]
			}
			return strings.TrimPrefix(l, "github.com/b2broker/simplefix-go")
		}
	}
	return "unknown"
}

// hostileFields builds a field list by grammar mutation of a valid message shape.
func hostileFields(t *Tape, seq int, sender, target string) (typ string, fs []Field) {
	typ = allTypes[t.Draw(len(allTypes))]
	if t.Chance(1, 10) {
		typ = []string{"", "ZZ", "AA", "0=", "\x00"}[t.Draw(5)]
	}
	fs = []Field{{Tag: "35", Val: typ}}
	if !t.Chance(1, 8) {
		fs = append(fs, F(TagSenderCompID, sender), F(TagTargetCompID, target))
	}
	switch t.Pick(6, 1, 1, 1) {
	case 0:
		fs = append(fs, FI(TagMsgSeqNum, seq))
	case 1:
		fs = append(fs, F(TagMsgSeqNum, "-1"))
	case 2:
		fs = append(fs, F(TagMsgSeqNum, "99999999999999999999"))
	}
	fs = append(fs, F(TagSendingTime, PeerClock()))
	groups := [][2]int{{146, 55}, {267, 269}, {268, 269}, {627, 628}, {384, 372}, {454, 455}, {711, 311}, {555, 600}}
	n := t.Draw(8)
	for i := 0; i < n; i++ {
		switch t.Pick(4, 4, 2, 2, 2, 2, 2, 2, 2, 1, 1, 3, 2) {
		case 12: // a counter followed by something that is not a field (no '='), cut off by the next entry or group
			g := groups[t.Draw(len(groups))]
			junk := Field{Tag: []string{"noequals", "x", "55", ""}[t.Draw(4)], Raw: true}
			switch t.Draw(3) {
			case 0: // nested counter + junk inside an entry that is not the last one
				fs = append(fs, FI(146, 2), F(55, word(t)), FI(711, 1+t.Draw(2)), junk, F(55, word(t)))
			case 1: // an outer group whose first entry starts with a counter + junk
				fs = append(fs, FI(g[0], 2), FI(g[0], 1), FI(711, 1+t.Draw(2)), junk, FI(g[0], 2))
			default:
				fs = append(fs, FI(g[0], 1+t.Draw(2)), junk, F(g[1], word(t)))
			}
		case 11: // the text of a group counter tag ahead of the genuine group, not at a field start
			g := groups[t.Draw(len(groups))]
			switch t.Draw(3) {
			case 0:
				fs = append(fs, Field{Tag: "1" + itoa(g[0]), Val: itoa(t.Draw(9))}) // a longer tag that ends with it
			case 1:
				fs = append(fs, F(553, "u"+itoa(g[0])+"=x")) // inside a free-text value
			default:
				fs = append(fs, F(58, itoa(g[0])+"="+itoa(g[0])+"="))
			}
			k := 1 + t.Draw(2)
			fs = append(fs, FI(g[0], k))
			for j := 0; j < k; j++ {
				fs = append(fs, F(g[1], word(t)))
			}
		case 0: // ordinary field of some template
			fs = append(fs, F([]int{112, 108, 98, 7, 16, 45, 371, 373, 58, 262, 263, 264, 55, 36, 123}[t.Draw(15)], word(t)))
		case 1: // a well-formed group
			g := groups[t.Draw(len(groups))]
			k := t.Draw(4)
			fs = append(fs, FI(g[0], k))
			for j := 0; j < k; j++ {
				fs = append(fs, F(g[1], word(t)))
			}
		case 2: // count larger or smaller than the entries present
			g := groups[t.Draw(len(groups))]
			fs = append(fs, FI(g[0], t.Draw(6)))
			for j := 0; j < t.Draw(4); j++ {
				fs = append(fs, F(g[1], word(t)))
			}
		case 3: // count as the very last field, nothing after it
			g := groups[t.Draw(len(groups))]
			fs = append(fs, FI(g[0], 1+t.Draw(3)))
			return typ, fs
		case 4: // count that is not a number / negative / huge
			g := groups[t.Draw(len(groups))]
			fs = append(fs, F(g[0], []string{"-1", "x", "", "999999999", "0", "1e3", "+2"}[t.Draw(7)]), F(g[1], word(t)))
		case 5: // entries without their first field
			g := groups[t.Draw(len(groups))]
			fs = append(fs, FI(g[0], 2), F(48, word(t)), F(22, "8"))
		case 6: // nested count at the end of an entry that is not the last one
			if t.Chance(1, 2) {
				fs = append(fs, FI(146, 2), F(55, word(t)), F(711, []string{"1", "", "2", "x", "0"}[t.Draw(5)]), F(55, word(t)))
				if t.Chance(1, 2) {
					fs = append(fs, FI(711, 1), F(311, word(t)), F(457, []string{"1", ""}[t.Draw(2)]))
				}
				break
			}
			// nested count inside the last entry
			fs = append(fs, FI(146, 1), F(55, word(t)), FI(711, 1+t.Draw(2)))
			if t.Chance(1, 2) {
				fs = append(fs, F(311, word(t)), FI(457, 1))
			}
		case 7: // tags that are prefixes / suffixes of template tags, or not numbers
			fs = append(fs, Field{Tag: []string{"1", "14", "1146", "46", "0", "-5", "a", "", "35", "10", "8", "9", "3 5"}[t.Draw(13)], Val: word(t)})
		case 8: // empty value, duplicated tag
			tag := []int{112, 108, 7, 146, 55}[t.Draw(5)]
			fs = append(fs, F(tag, ""), F(tag, word(t)))
		case 9: // very long value
			fs = append(fs, F(58, strings.Repeat("A", 1000+t.Draw(60000))))
		case 10: // field without '='
			fs = append(fs, Field{Tag: "noequals", Raw: true})
		}
	}
	return typ, fs
}

// rawBuild is Build for fields that may lack '='.
func rawBuild(fs []Field, o WireOpts) []byte {
	b := Build(fs, o)
	return b
}

// hostileBytes draws a byte string: mostly grammar mutations with valid framing,
// sometimes arbitrary bytes.
func hostileBytes(t *Tape, seq int, sender, target string) []byte {
	switch t.Pick(12, 2, 2, 1, 1) {
	case 0:
		_, fs := hostileFields(t, seq, sender, target)
		return rawBuild(fs, WireOpts{})
	case 1:
		_, fs := hostileFields(t, seq, sender, target)
		o := WireOpts{}
		switch t.Draw(5) {
		case 0:
			o.RawLenVal = []string{"-1", "0", "+5", "99999999999999999999", "", "x", "007"}[t.Draw(7)]
		case 1:
			o.RawSumVal = []string{"", "1", "0000", "abc", "-01"}[t.Draw(5)]
		case 2:
			o.Begin = []string{"", "FIX", "FIX.4.4\x00", "=", "8=FIX.4.4"}[t.Draw(5)]
		case 3:
			o.BadLen = true
		default:
			o.BadSum = true
		}
		return rawBuild(fs, o)
	case 2:
		return []byte([]string{"", "8", "8=", "10=", "10=\x01", "\x01", "\x01\x01\x01", "=", "8=FIX.4.4", "8=FIX.4.4\x019=0\x0110=000\x01",
			"35=A\x01", "9=5\x01", "8=\x019=\x0135=\x0110=\x01", "8=FIX.4.4\x019=5\x0135=0\x0110=\x01", "A", "35", "34=", "\x0134="}[t.Draw(18)])
	case 3:
		n := t.Draw(200)
		b := make([]byte, n)
		for i := range b {
			b[i] = byte(t.Draw(256))
		}
		return b
	default:
		// a valid library message with a few random byte edits
		_, raw := baseMessage(t)
		for i := 0; i < 1+t.Draw(3) && len(raw) > 0; i++ {
			raw[t.Draw(len(raw))] = byte(t.Draw(256))
		}
		return raw
	}
}

// c11: hostile peer through the real Conn -> handler -> session -> application decode,
// plus direct calls of the decoder API; oracle: no panic, no hang.
func c11(w *World) {
	role := []string{"acceptor", "initiator"}[w.W.Draw(2)]
	buf := []int{0, 1, 10}[w.W.Draw(3)]
	logged := w.W.Chance(2, 3)
	w.Cfg("role", role)
	w.Cfg("logged", logged)
	decodeAll := func(msg []byte) bool {
		// the application decodes what it is given, as examples/ do
		typ, err := fix.ValueByTag(msg, "35")
		if err == nil {
			if tpl := template(string(typ)); tpl != nil {
				_ = encoding.Unmarshal(tpl, msg)
				_ = encoding.DefaultUnmarshaller{Strict: false, Validator: encoding.DefaultValidator{}}.Unmarshal(template(string(typ)), msg)
			}
		}
		return true
	}
	sc := w.NewScript(ScriptCfg{Role: role, HandlerBuf: buf, ConnBuf: buf, HBMin: 1, HBMax: 60, HeartBtInt: 30, CloseTimeout: time.Second,
		OnAccSession: func(a *AccSession) { a.H.HandleIncoming(simplefixgo.AllMsgTypes, decodeAll) },
		BeforeRun:    func(i *InitSide) { i.H.HandleIncoming(simplefixgo.AllMsgTypes, decodeAll) }})
	if logged {
		sc.DoLogon(30)
	}
	n := 1 + w.W.Draw(w.Deep(12))
	for i := 0; i < n && !sc.P.EOF && w.Sched.AbortReason() == ""; i++ {
		if w.W.Chance(1, 3) {
			// nothing hostile about the bytes, only about the order: valid administrative messages in any
			// sequence (logon, logout, logon again, ...) must not crash the inbound path either
			var raw []byte
			switch w.W.Draw(6) {
			case 0:
				raw = sc.Msg("A", LogonFields(30, "0", "", "")...)
			case 1:
				raw = sc.Msg("5")
			case 2:
				raw = sc.Msg("0")
			case 3:
				raw = sc.Msg("1", F(TagTestReqID, "v"+itoa(i)))
			case 4:
				raw = sc.Msg("2", FI(TagBeginSeqNo, w.W.Draw(4)), FI(TagEndSeqNo, w.W.Draw(4)))
			default:
				raw = sc.Msg("4", F(123, "Y"), FI(36, sc.LastSeq()+1))
			}
			sc.P.Send(raw)
			sc.Settle()
			w.Probe("valid_message_odd_order")
			continue
		}
		data := hostileBytes(w.W, sc.NextSeq(), sc.PeerID, sc.LibID)
		switch w.W.Pick(5, 2, 3) {
		case 0: // through the real stream
			sc.P.SendShaped(data, w.ShapeWith(w.W, w.W.Draw(5), 0))
			sc.Settle()
			w.Probe("via_stream")
		case 1: // at the handler's public entry point (a custom transport could deliver this)
			var h interface{ ServeIncoming([]byte) }
			if role == "acceptor" {
				if len(sc.Acc.Sess) == 0 {
					continue
				}
				h = sc.Acc.Sess[0].H
			} else {
				h = sc.Ini.H
			}
			done := false
			simrt.GoHarness("serve-incoming", func() { h.ServeIncoming(data); done = true })
			sc.Settle()
			_ = done
			w.Probe("via_serve_incoming")
		case 2: // the decoder API directly
			for _, typ := range []string{allTypes[w.W.Draw(len(allTypes))], "V", "W"} {
				func() {
					defer func() {
						if r := recover(); r != nil {
							st := string(debugStack())
							w.Violate("decoder-panic", panicSite(st), fmt.Sprintf("Unmarshal into %s panicked with %v on %q", typ, r, clip(data)))
						}
					}()
					_ = encoding.Unmarshal(template(typ), data)
					_ = encoding.DefaultUnmarshaller{Strict: false, Validator: encoding.DefaultValidator{}}.Unmarshal(template(typ), data)
				}()
			}
			for _, tag := range []string{"35", "34", "10", "8", "9", "", "112", "123456789012"} {
				func() {
					defer func() {
						if r := recover(); r != nil {
							st := string(debugStack())
							w.Violate("decoder-panic", panicSite(st), fmt.Sprintf("ValueByTag(%q) panicked with %v on %q", tag, r, clip(data)))
						}
					}()
					_, _ = fix.ValueByTag(data, tag)
				}()
			}
			w.Probe("via_decoder_api")
		}
	}
	if !sc.P.EOF && w.Sched.AbortReason() == "" {
		sc.Teardown()
	}
}

func clip(b []byte) string {
	if len(b) > 200 {
		return string(b[:200]) + "..."
	}
	return string(b)
}

func debugStack() []byte { return debug.Stack() }
