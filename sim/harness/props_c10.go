package harness

import (
	"bytes"
	"fmt"
	"time"

	"github.com/b2broker/simplefix-go/fix"
	fixgen "github.com/b2broker/simplefix-go/tests/fix44"

	"verif/simrt"
)

func init() {
	Register(&PropDef{ID: "C10", Run: c10, MaxSim: 3 * time.Hour})
}

// c10: the wire log of first transmissions is the reference model; generated
// ResendRequest ranges are compared with it. Separately: Logon sequence gaps.
func c10(w *World) {
	if w.W.Chance(1, 4) {
		if w.W.Chance(1, 3) {
			c10gapHistory(w)
		} else {
			c10gap(w)
		}
		return
	}
	role := []string{"acceptor", "initiator"}[w.W.Draw(2)]
	buf := []int{0, 1, 10}[w.W.Draw(3)]
	hb := []int{1, 2, 30}[w.W.Draw(3)]
	w.Cfg("role", role)
	w.Cfg("buf", buf)
	w.Cfg("hb", hb)
	w.Cfg("mode", "resend")
	// a neighbour: a second logged-on session of the same acceptor that shares the store (as the
	// repository's tests and examples wire it) and whose identifiers read the same as ours when written
	// one after the other (LIB+PEER / LIBP+EER): its messages must never come back to us
	neighbour := role == "acceptor" && w.W.Chance(1, 3)
	cfg := ScriptCfg{Role: role, HandlerBuf: buf, ConnBuf: buf, HBMin: 1, HBMax: 60, HeartBtInt: hb, CloseTimeout: time.Second}
	if neighbour {
		w.Cfg("neighbour", true)
	}
	sc := w.NewScript(cfg)
	sc.DoLogon(hb)
	s := sc.Sess()
	if s == nil || !s.IsLogged() {
		w.Inconclusive = "logon-failed"
		return
	}
	// ---- outbound history of mixed types ----
	nOut := w.W.Draw(w.Deep(30))
	for i := 0; i < nOut && !sc.P.EOF; i++ {
		switch w.W.Pick(3, 3, 2, 2, 2) {
		case 0:
			_ = s.Send(fixgen.NewHeartbeat().SetTestReqID("app" + itoa(i)))
		case 1:
			sc.P.Send(sc.Msg("1", F(TagTestReqID, "e"+itoa(i)))) // produces an echo
		case 2:
			sc.P.Send(Build(AdminMsg("0", sc.NextSeq(), sc.PeerID, sc.LibID), WireOpts{BadSum: true})) // produces a Reject
		case 3:
			md := fixgen.NewMarketDataRequest()
			md.SetMDReqID("md" + itoa(i)).SetSubscriptionRequestType("1").SetMarketDepth(0)
			_ = s.Send(md)
		case 4:
			simrt.Sleep(time.Duration(w.W.Draw(hb*1500)) * time.Millisecond) // timer heartbeats
			sc.P.Send(sc.Msg("0"))
		}
		sc.Settle()
	}
	sc.Settle()
	if sc.P.EOF {
		w.Inconclusive = "disconnected"
		return
	}
	if neighbour {
		nb := w.NewClient(sc.Acc, "neighbour", "EER", "LIBP")
		nb.Step(nb.Msg("A", LogonFields(hb, "0", "", "")...))
		for i := 0; i < 2+w.W.Draw(nOut+3); i++ {
			nb.Step(nb.Msg("1", F(TagTestReqID, "nb"+itoa(i)))) // the acceptor answers each: numbers 2, 3, ... of the neighbour's own sequence
		}
		sc.P.Send(sc.Msg("0")) // keep our own link alive
		sc.Settle()
		w.Probe("neighbour_session_traffic")
	}
	if w.W.Chance(1, 4) {
		// stay silent until the library probes us: the first thing it then hears is the ResendRequest
		// (the session is logged on all along; its own TestRequest is part of the outbound history)
		tol := hb / 20
		if tol < 1 {
			tol = 1
		}
		T := time.Duration(hb+tol) * time.Second
		sc.P.Take()
		simrt.Sleep(T + T/10 + time.Millisecond)
		sc.Settle()
		if count(sc.P.Take(), "1") > 0 && !sc.P.EOF {
			w.Probe("resend_while_probe_outstanding")
			w.Cfg("probe_outstanding", true)
		}
	}
	// reference model: sequence number -> bytes of the first transmission
	logOf := func() (map[int][]byte, int, bool) {
		m := map[int][]byte{}
		last := 0
		for _, x := range sc.P.Msgs() {
			n, ok := GetInt(x.Raw, TagMsgSeqNum)
			if !ok {
				return nil, 0, false
			}
			if _, dup := m[n]; !dup {
				m[n] = x.Raw
			}
			if n > last {
				last = n
			}
		}
		return m, last, true
	}
	sc.P.Take()
	nReq := 1 + w.W.Draw(w.Deep(5))
	for r := 0; r < nReq && len(w.Viol) == 0 && !sc.P.EOF; r++ {
		log, last, ok := logOf()
		if !ok || !sc.checkFraming(sc.P.Msgs()) {
			w.Inconclusive = "framing-anomaly"
			return
		}
		var b, e int
		shape := ""
		switch w.W.Pick(5, 3, 3, 3, 2, 2, 2, 2, 2) {
		case 0:
			shape = "inside"
			b = 1 + w.W.Draw(last)
			e = b + w.W.Draw(last-b+1)
		case 1:
			shape = "single"
			b = 1 + w.W.Draw(last)
			e = b
		case 2:
			shape = "open-ended"
			b, e = 1+w.W.Draw(last), 0
		case 3:
			shape = "to-last"
			b, e = 1+w.W.Draw(last), last
		case 4:
			shape = "end-beyond-last"
			b, e = 1+w.W.Draw(last), last+1+w.W.Draw(5)
		case 5:
			shape = "wholly-beyond"
			b = last + 1 + w.W.Draw(5)
			e = b + w.W.Draw(4)
		case 6:
			shape = "inverted"
			b = 2 + w.W.Draw(last)
			e = 1 + w.W.Draw(b-1)
		case 7:
			shape = "begin-zero"
			b, e = 0, w.W.Draw(last+1)
		case 8:
			shape = "all"
			b, e = 1, last
		}
		w.State(shape)
		replies := sc.Step(sc.Msg("2", FI(TagBeginSeqNo, b), FI(TagEndSeqNo, e)))
		if !sc.checkFraming(replies) {
			return
		}
		// retransmissions = replies whose sequence number was already in the log
		var resent []RxMsg
		for _, m := range replies {
			n, _ := GetInt(m.Raw, TagMsgSeqNum)
			if n <= last {
				resent = append(resent, m)
			}
		}
		inRange := func(n int) bool { return n >= b && (e == 0 || n <= e) }
		for _, m := range resent {
			n, _ := GetInt(m.Raw, TagMsgSeqNum)
			if !inRange(n) {
				w.Violate("resend-outside-range", shape, fmt.Sprintf("ResendRequest %d..%d (last sent %d) retransmitted 34=%d", b, e, last, n))
			}
			if !bytes.Equal(log[n], m.Raw) {
				w.Violate("resend-not-identical", shape, fmt.Sprintf("retransmission of 34=%d differs from the first transmission:\n first  %s\n resent %s", n, short(log[n]), short(m.Raw)))
			}
		}
		must := (b >= 1 && b <= last) && (e == 0 || (e >= b && e <= last))
		if must && neighbour {
			// with a shared counter the neighbour took some of the numbers: "the messages it originally
			// sent under numbers b..e" is only defined where every number of the range was ours
			hi := e
			if e == 0 {
				must = false // "the last message sent" is not defined per session once the counter is shared
				hi = last
			}
			for n := b; n <= hi; n++ {
				if _, ours := log[n]; !ours {
					must = false
				}
			}
		}
		if must {
			hi := e
			if e == 0 {
				hi = last
			}
			var want []int
			for n := b; n <= hi; n++ {
				want = append(want, n)
			}
			var got []int
			for _, m := range resent {
				n, _ := GetInt(m.Raw, TagMsgSeqNum)
				got = append(got, n)
			}
			if fmt.Sprint(got) != fmt.Sprint(want) {
				w.Violate("resend-wrong-set", shape, fmt.Sprintf("ResendRequest %d..%d (last sent %d): retransmitted %v, want %v in ascending order", b, e, last, got, want))
			}
			w.Probe("resend_in_range")
		}
		w.Logf("step", "resend %s %d..%d last=%d -> %d retransmissions", shape, b, e, last, len(resent))
	}
	sc.Teardown()
}

// c10gap: Logon sequence gaps on fresh and pre-counted stores.
func c10gap(w *World) {
	role := []string{"acceptor", "initiator"}[w.W.Draw(2)]
	buf := []int{0, 1, 10}[w.W.Draw(3)]
	w.Cfg("role", role)
	w.Cfg("buf", buf)
	w.Cfg("mode", "logon-gap")
	store := NewStore(w)
	expectedLast := 0
	if w.W.Chance(1, 2) {
		// an earlier session left an incoming counter behind
		expectedLast = 1 + w.W.Draw(20)
		_ = store.Real.SetSeqNum(fixStorageID("incoming"), expectedLast)
	}
	sc := w.NewScript(ScriptCfg{Role: role, HandlerBuf: buf, ConnBuf: buf, HBMin: 1, HBMax: 60, HeartBtInt: 30, CloseTimeout: time.Second, Store: store})
	received := expectedLast + 1 + w.W.Draw(6) - []int{0, 0, 0, 1}[w.W.Draw(4)]*w.W.Draw(expectedLast+1)
	if received < 1 {
		received = 1
	}
	w.Cfg("expected_next", expectedLast+1)
	w.Cfg("received", received)
	sc.SetSeq(received - 1)
	replies := sc.Step(sc.Msg("A", LogonFields(30, "0", "", "")...))
	if !sc.checkFraming(replies) {
		return
	}
	s := sc.Sess()
	if s == nil || !s.IsLogged() {
		w.Inconclusive = "logon-failed"
		return
	}
	rr := filterType(replies, "2")
	gap := received > expectedLast+1
	w.State(fmt.Sprintf("gap=%v", gap))
	if gap {
		w.Probe("logon_gap")
		if len(rr) != 1 {
			w.Violate("gap-no-resend-request", role, fmt.Sprintf("Logon with 34=%d while %d was expected: got %q, want a ResendRequest", received, expectedLast+1, typesOf(replies)))
		} else {
			checkGapRequest(w, role, rr[0].Raw, received, expectedLast+1)
		}
	}
	sc.Teardown()
}

// checkGapRequest: the request starts at the first missing number and is a usable ResendRequest
// (an EndSeqNo that is 0, "everything", or not below the start).
func checkGapRequest(w *World, role string, raw []byte, received, firstMissing int) {
	b, _ := GetInt(raw, TagBeginSeqNo)
	if b != firstMissing {
		w.Violate("gap-wrong-begin", role, fmt.Sprintf("Logon with 34=%d while %d was expected: ResendRequest asks from 7=%d, the first missing number is %d", received, firstMissing, b, firstMissing))
	}
	if e, has := GetInt(raw, TagEndSeqNo); !has || (e != 0 && e < b) {
		w.Violate("gap-request-malformed", role, fmt.Sprintf("ResendRequest after a Logon gap carries 16=%d (present %v) with 7=%d: %s", e, has, b, short(raw)))
	}
}

// c10gapHistory: the expected number is what an earlier real session over the same stores
// received, not a number written into the store by hand.
func c10gapHistory(w *World) {
	role := []string{"acceptor", "initiator"}[w.W.Draw(2)]
	buf := []int{0, 1, 10}[w.W.Draw(3)]
	w.Cfg("role", role)
	w.Cfg("buf", buf)
	w.Cfg("mode", "logon-gap-after-earlier-session")
	store := NewStore(w)
	k := w.W.Draw(7)   // 0: the earlier session received nothing but its Logon
	gap := w.W.Draw(5) // 0: no gap
	var acc *AccSide
	connect := func(name string) (*Client, func()) {
		if role == "acceptor" {
			if acc == nil {
				acc = w.StartAcceptor(AccCfg{HandlerBuf: buf, WriteTimeout: time.Minute, HBMin: 1, HBMax: 60, Store: store})
			}
			c := w.NewClient(acc, name, "PEER", "LIB")
			return c, func() { c.P.C.CloseNow() }
		}
		a, b := w.Net.Pipe(name, -1, -1)
		c := &Client{w: w, P: NewPeer(w, b, name), PeerID: "Server", LibID: "Client"}
		ini := w.StartInitiator(InitCfg{HandlerBuf: buf, ConnBuf: buf, WriteDeadline: time.Minute, HeartBtInt: 30, Store: store}, a)
		c.Settle()
		return c, func() { ini.I.Close(); c.P.C.CloseNow() }
	}
	// ---- the earlier session: a Logon and k more inbound messages ----
	c1, end1 := connect("earlier")
	c1.Step(c1.Msg("A", LogonFields(30, "0", "", "")...))
	for i := 0; i < k; i++ {
		if w.W.Chance(1, 2) {
			c1.Step(c1.Msg("0"))
		} else {
			c1.Step(c1.Msg("1", F(TagTestReqID, "h"+itoa(i))))
		}
	}
	lastIn := c1.LastSeq()
	if c1.P.EOF {
		w.Inconclusive = "disconnected"
		return
	}
	end1()
	simrt.Sleep(10 * time.Millisecond)
	simrt.Settle()
	// ---- the later session ----
	c2, end2 := connect("later")
	received := lastIn + 1 + gap
	c2.SetSeq(received - 1)
	w.Cfg("expected_next", lastIn+1)
	w.Cfg("received", received)
	replies := c2.Step(c2.Msg("A", LogonFields(30, "0", "", "")...))
	if !c2.checkFraming(replies) {
		return
	}
	rr := filterType(replies, "2")
	w.State(fmt.Sprintf("history/gap=%v", gap > 0))
	if gap > 0 {
		w.Probe("logon_gap_after_earlier_session")
		if len(rr) != 1 {
			w.Violate("gap-no-resend-request", role+"/history", fmt.Sprintf("an earlier session received up to 34=%d; Logon with 34=%d: got %q, want a ResendRequest", lastIn, received, typesOf(replies)))
		} else {
			checkGapRequest(w, role+"/history", rr[0].Raw, received, lastIn+1)
		}
	}
	end2()
	if acc != nil {
		acc.A.Close()
	}
	simrt.Sleep(50 * time.Millisecond)
}

func fixStorageID(side string) fix.StorageID { return fix.StorageID{Side: fix.StorageSide(side)} }
