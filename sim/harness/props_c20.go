package harness

import (
	"fmt"
	"os"
	"sort"
	"strconv"
	"strings"
	"time"

	simplefixgo "github.com/b2broker/simplefix-go"
	"github.com/b2broker/simplefix-go/fix"
	"github.com/b2broker/simplefix-go/storages/memory"
	fixgen "github.com/b2broker/simplefix-go/tests/fix44"
	"github.com/b2broker/simplefix-go/utils"

	"verif/simrt"
)

func init() {
	Register(&PropDef{ID: "C20", Run: c20, MaxSim: 2 * time.Hour, Race: true})
}

// c20: the union workload of intended concurrent use, under the seeded scheduler,
// in a -race build. The detector judges by happens-before, and the scheduler's own
// hand-offs are hidden from it, so only the library's synchronisation orders accesses.
func c20(w *World) {
	buf := []int{0, 1, 10}[w.W.Draw(3)]
	hb := 1 + w.W.Draw(2)
	nIni := 1 + w.W.Draw(3)
	w.Cfg("buf", buf)
	w.Cfg("hb", hb)
	w.Cfg("initiators", nIni)
	// the bundled store itself (no harness wrapper), one instance shared by every accepted
	// session, as the repository's tests and examples wire it
	accStore := memory.NewStorage()
	acc := w.StartAcceptor(AccCfg{HandlerBuf: buf, WriteTimeout: time.Minute, HBMin: 1, HBMax: 60, RawStore: accStore, CloseTimeout: time.Second})
	var inis []*InitSide
	var ends []*Conn
	for i := 0; i < nIni; i++ {
		cli, srv := acc.L.Dial(fmt.Sprintf("pair%d", i), 1<<16, 1<<16)
		ends = append(ends, cli, srv)
		ini := w.StartInitiator(InitCfg{HandlerBuf: buf, ConnBuf: buf, WriteDeadline: time.Minute, HeartBtInt: hb, RawStore: memory.NewStorage(),
			Sender: fmt.Sprintf("Client%d", i), Target: "Server", CloseTimeout: time.Second}, cli)
		inis = append(inis, ini)
	}
	// one more connection, driven by a scripted peer that stutters: silent until the library's
	// TestRequest arrives, one answer of a drawn type, silent again until the next TestRequest, ...
	// so that the inbound-silence timer really expires several times between single inbound messages
	// (on a link with steady traffic the timer's own lock would order every state access)
	stutterDone := false
	var stutterIni *InitSide
	var stutterCl *Client
	stutter := func(cl *Client, n int) {
		cl.Step(cl.Msg("A", LogonFields(n, "0", "", "")...))
		seen := 0
		for round := 0; round < 3+w.W.Draw(3) && !cl.P.EOF; round++ {
			for i := 0; i < 40*(n+2) && !cl.P.EOF; i++ {
				simrt.Sleep(100 * time.Millisecond)
				if k := count(cl.P.Msgs(), "1"); k > seen {
					seen = k
					break
				}
			}
			if cl.P.EOF {
				break
			}
			switch w.W.Draw(3) {
			case 0:
				cl.P.Send(cl.Msg("0", F(TagTestReqID, itoa(seen))))
			case 1:
				cl.P.Send(cl.Msg("V", F(262, "st"+itoa(round)), F(263, "1"), F(264, "0")))
			default:
				cl.P.Send(cl.Msg("1", F(TagTestReqID, "st"+itoa(round))))
			}
			w.Probe("timer_expired_between_single_messages")
		}
		if !cl.P.EOF && w.W.Chance(1, 2) {
			cl.P.Send(cl.Msg("5"))
		}
		stutterDone = true
	}
	if w.W.Chance(1, 2) {
		cl := w.NewClient(acc, "stutter", "STUTTER", "LIB")
		simrt.GoHarness("stutter-peer", func() { stutter(cl, 1) })
	} else {
		a, b := w.Net.Pipe("stutter", -1, -1)
		cl := &Client{w: w, P: NewPeer(w, b, "stutter"), PeerID: "Server", LibID: "ClientS"}
		stutterIni = w.StartInitiator(InitCfg{HandlerBuf: buf, ConnBuf: buf, WriteDeadline: time.Minute, HeartBtInt: 1, RawStore: memory.NewStorage(),
			Sender: "ClientS", Target: "Server", CloseTimeout: time.Second}, a)
		stutterCl = cl
		simrt.GoHarness("stutter-peer", func() { cl.Settle(); stutter(cl, 1) })
	}
	simrt.Sleep(200 * time.Millisecond)
	simrt.Settle()
	logged := 0
	for _, in := range inis {
		if in.S.IsLogged() {
			logged++
		}
	}
	accSess := acc.Sessions()
	if logged == 0 || len(accSess) == 0 {
		w.Inconclusive = "logon-failed"
		return
	}
	w.Probe("logged_on")
	stop := false
	noMoreReg := false // registrations on a session end before that session is Stop()ped (Stop drops its handler pool)
	// the endings are drawn up front so that registrations may go on, through logout and close, on every
	// session that is not going to be stopped
	iniEnding := make([]int, len(inis))
	for i := range iniEnding {
		iniEnding[i] = w.W.Draw(4)
	}
	stopAcc0 := w.W.Chance(1, 2)
	running := 0
	spawn := func(name string, f func(i int)) {
		running++
		simrt.GoHarness(name, func() {
			for i := 0; !stop && i < 300; i++ {
				f(i)
			}
			running--
		})
	}
	pause := func() {
		if w.W.Chance(1, 2) {
			simrt.Sleep(time.Duration(w.W.Draw(120)) * time.Millisecond)
		} else {
			simrt.Yield("harness.app")
		}
	}
	// senders on both sides
	for k, in := range inis {
		in := in
		for t := 0; t < 1+w.W.Draw(3); t++ {
			spawn("ini-sender", func(i int) {
				_ = in.S.Send(fixgen.NewMarketDataRequest().SetMDReqID(fmt.Sprintf("c%d-%d", k, i)).SetSubscriptionRequestType("1").SetMarketDepth(1))
				pause()
			})
		}
		// resend requests overlapping sends (the peer's inbound goroutine reads the store while its senders write it)
		spawn("ini-resend", func(i int) {
			simrt.Sleep(time.Duration(100+w.W.Draw(900)) * time.Millisecond)
			if w.W.Chance(1, 2) {
				_ = in.S.Send(fixgen.NewResendRequest().SetBeginSeqNo(1).SetEndSeqNo(1 + w.W.Draw(3)))
			} else {
				// from the acceptor's most recent messages through "the last one": the range reaches the
				// message an acceptor-side sender is handing off at this very moment
				cur, _ := accStore.GetCurrSeqNum(fix.StorageID{Side: fix.Outgoing})
				b := cur - w.W.Draw(3)
				if b < 1 {
					b = 1
				}
				_ = in.S.Send(fixgen.NewResendRequest().SetBeginSeqNo(b).SetEndSeqNo(0))
				w.Probe("resend_reaches_message_in_flight")
			}
			_ = in.S.Send(fixgen.NewTestRequest().SetTestReqID("tr" + itoa(i)))
			w.Probe("resend_overlapped_send")
		})
		// state and context queries, late registrations (as examples/ do after Run)
		spawn("ini-queries", func(i int) {
			_ = in.S.IsLogged()
			_ = in.S.Context().Err()
			if i%7 == 0 && !(noMoreReg && iniEnding[k] == 0) {
				in.S.OnChangeState(utils.EventLogout, func() bool { return true })
				in.H.HandleIncoming(fixgen.MsgTypeMarketDataRequest, func([]byte) bool { return true })
				in.H.HandleOutgoing(simplefixgo.AllMsgTypes, func(simplefixgo.SendingMessage) bool { return true })
			}
			pause()
		})
	}
	for ai, as := range accSess {
		as := as
		ai := ai
		for t := 0; t < 1+w.W.Draw(2); t++ {
			spawn("acc-sender", func(i int) {
				_ = as.S.Send(fixgen.NewMarketDataRequest().SetMDReqID("s" + itoa(i)).SetSubscriptionRequestType("1").SetMarketDepth(1))
				pause()
			})
		}
		spawn("acc-queries", func(i int) {
			_ = as.S.IsLogged()
			if i%9 == 0 && !(noMoreReg && ai == 0 && stopAcc0) {
				as.S.OnChangeState(utils.EventLogout, func() bool { return true })
				as.H.HandleIncoming(fixgen.MsgTypeMarketDataRequest, func([]byte) bool { return true })
			}
			pause()
		})
		spawn("acc-resend", func(i int) {
			simrt.Sleep(time.Duration(100+w.W.Draw(900)) * time.Millisecond)
			_ = as.S.Send(fixgen.NewResendRequest().SetBeginSeqNo(1).SetEndSeqNo(2))
		})
	}
	// let both timers of somebody actually expire: one direction goes silent for a while
	simrt.Sleep(time.Duration(500+w.W.Draw(1500)) * time.Millisecond)
	if w.W.Chance(2, 3) {
		victim := ends[w.W.Draw(len(ends))]
		victim.n.lock()
		victim.Plan.Shape = func(b []byte) []seg { return []seg{{at: time.Now().Add(time.Duration(hb+2) * time.Second), data: b}} }
		victim.n.unlock()
		simrt.Sleep(time.Duration(hb+3) * time.Second)
		victim.n.lock()
		victim.Plan.Shape = nil
		victim.n.unlock()
		w.Probe("silence_injected")
	}
	simrt.Sleep(time.Duration(w.W.Draw(2000)) * time.Millisecond)
	// endings: Stop / Logout / Close while traffic is still running
	noMoreReg = true
	simrt.Sleep(20 * time.Millisecond)
	simrt.Settle()
	for k, in := range inis {
		switch iniEnding[k] {
		case 0:
			_ = in.S.Stop()
			w.Probe("stop_during_traffic")
		case 1:
			_ = in.S.Logout()
		case 2:
			in.I.Close()
		}
	}
	if stopAcc0 && len(accSess) > 0 {
		_ = accSess[0].S.Stop()
	}
	simrt.Sleep(1500 * time.Millisecond)
	// give the stuttering connection time for its expiries (each takes about 2 s at HeartBtInt 1)
	for i := 0; i < 200 && !stutterDone; i++ {
		simrt.Sleep(100 * time.Millisecond)
	}
	stop = true
	if stutterIni != nil {
		if w.W.Chance(2, 3) {
			// stop the session but keep the connection: the timer goroutines wind down at their next
			// expiry, and only then more traffic passes through the handlers the session left registered
			_ = stutterIni.S.Stop()
			if stutterCl != nil && !stutterCl.P.EOF {
				stutterCl.P.Send(stutterCl.Msg("5"))
			}
			simrt.Sleep(time.Duration(2500+w.W.Draw(1500)) * time.Millisecond)
			if stutterCl != nil && !stutterCl.P.EOF {
				stutterCl.P.Send(stutterCl.Msg("0"))
				simrt.Yield("harness.app")
			}
			_ = stutterIni.S.Send(fixgen.NewHeartbeat())
			simrt.Sleep(300 * time.Millisecond)
			w.Probe("traffic_after_session_stop")
		}
		stutterIni.I.Close()
	}
	for _, in := range inis {
		in.I.Close()
	}
	acc.A.Close()
	simrt.Sleep(2 * time.Second)
	simrt.Settle()
	for _, ms := range [][]RxMsg{} {
		_ = ms
	}
}

// ---- race report collection ----

var raceOffset int64

func raceLogPath() string {
	for _, kv := range strings.Fields(os.Getenv("GORACE")) {
		if strings.HasPrefix(kv, "log_path=") {
			return strings.TrimPrefix(kv, "log_path=") + "." + strconv.Itoa(os.Getpid())
		}
	}
	return ""
}

type raceReport struct {
	a, b string // innermost non-runtime frame of each access
	text string
}

func isRuntimeFrame(fn string) bool {
	for _, p := range []string{"runtime.", "sync.", "sync/atomic.", "internal/", "testing.", "time."} {
		if strings.HasPrefix(fn, p) {
			return true
		}
	}
	return false
}

func parseRaces(txt string) []raceReport {
	var out []raceReport
	for _, blk := range strings.Split(txt, "==================") {
		if !strings.Contains(blk, "WARNING: DATA RACE") {
			continue
		}
		var tops []string
		lines := strings.Split(blk, "\n")
		for i := 0; i < len(lines) && len(tops) < 2; i++ {
			l := lines[i]
			if (strings.HasPrefix(l, "Read at ") || strings.HasPrefix(l, "Write at ") || strings.HasPrefix(l, "Previous read at ") || strings.HasPrefix(l, "Previous write at ") ||
				strings.HasPrefix(l, "Atomic ") || strings.HasPrefix(l, "Previous atomic ")) && strings.Contains(l, "goroutine") {
				top := "?"
				for j := i + 1; j < len(lines); j++ {
					f := lines[j]
					if strings.TrimSpace(f) == "" {
						break
					}
					if strings.HasPrefix(f, "  ") && !strings.HasPrefix(f, "      ") {
						fn := strings.TrimSpace(f)
						if k := strings.LastIndex(fn, "("); k > 0 {
							fn = fn[:k]
						}
						if !isRuntimeFrame(fn) {
							top = fn
							break
						}
					}
				}
				tops = append(tops, top)
			}
		}
		if len(tops) == 2 {
			out = append(out, raceReport{a: tops[0], b: tops[1], text: blk})
		}
	}
	return out
}

const libPrefix = "github.com/b2broker/simplefix-go"

// collectRaces turns detector reports written since the last call into violations:
// a report counts iff both accesses have their innermost non-runtime frame in the library.
func collectRaces() (viol []Violation, ignored int) {
	p := raceLogPath()
	if p == "" {
		return nil, 0
	}
	b, err := os.ReadFile(p)
	if err != nil || int64(len(b)) <= raceOffset {
		return nil, 0
	}
	txt := string(b[raceOffset:])
	raceOffset = int64(len(b))
	for _, r := range parseRaces(txt) {
		if !strings.HasPrefix(r.a, libPrefix) || !strings.HasPrefix(r.b, libPrefix) || strings.Contains(r.a, "/tests/") || strings.Contains(r.b, "/tests/") {
			ignored++
			continue
		}
		pair := []string{strings.TrimPrefix(r.a, libPrefix), strings.TrimPrefix(r.b, libPrefix)}
		sort.Strings(pair)
		viol = append(viol, Violation{Class: "data-race", Key: pair[0] + " | " + pair[1], Detail: strings.TrimSpace(r.text)})
	}
	return viol, ignored
}
