package harness

import (
	"errors"
	"fmt"
	"time"

	"github.com/b2broker/simplefix-go/session"
	fixgen "github.com/b2broker/simplefix-go/tests/fix44"

	"verif/simrt"
)

func init() {
	Register(&PropDef{ID: "C06", Run: c06, MaxSim: 2 * time.Hour})
}

// c06: generated inbound histories against an executable reference model of the
// logon state machine (DESIGN.md §2.7b rows for Logon).
func c06(w *World) {
	role := []string{"acceptor", "initiator"}[w.W.Draw(2)]
	limits := [][2]int{{1, 60}, {5, 30}, {10, 10}, {2, 3}, {1, 1}}[w.W.Draw(5)]
	hbCfg := []int{1, 5, 30}[w.W.Draw(3)]
	buf := []int{0, 1, 10}[w.W.Draw(3)]
	goodUser, goodPass := "alice", "secret"
	approve := func(ls *session.LogonSettings) error {
		if ls.Username == goodUser && ls.Password == goodPass {
			return nil
		}
		return errors.New("bad credentials")
	}
	user, pass := "", ""
	switch w.W.Draw(4) {
	case 1:
		user, pass = "bob", "hunter2"
	case 2:
		user = "bob-only" // a user name without a password
	case 3:
		pass = "api-token-1234" // token-style: a password without a user name
	}
	w.Cfg("role", role)
	w.Cfg("limits", limits)
	w.Cfg("buf", buf)
	sc := w.NewScript(ScriptCfg{Role: role, HandlerBuf: buf, ConnBuf: buf, HBMin: limits[0], HBMax: limits[1], HeartBtInt: hbCfg,
		Approve: approve, Username: user, Password: pass, CloseTimeout: time.Second})
	s := sc.Sess()
	if s == nil {
		w.Inconclusive = "no-session"
		return
	}

	// ---- model ----
	mayLogged := false // an acceptable Logon has been processed and nothing ended the logon since
	strict := true     // no logon accepted and no local logout yet: exact expectations apply
	probeOutstanding := false
	logonEvents := 0
	endedOnce := false // a logout (either side) has ended a logon before

	if role == "initiator" {
		first := sc.P.Take()
		if !sc.checkFraming(first) {
			return
		}
		if len(first) == 0 || first[0].Type != "A" {
			w.Violate("initiator-first-message", "not-logon", fmt.Sprintf("first message on the wire is %q, want a Logon", typesOf(first)))
			return
		}
		lg := first[0].Raw
		if v, _ := GetInt(lg, TagHeartBtInt); v != hbCfg {
			w.Violate("initiator-logon-fields", "108", fmt.Sprintf("Logon carries 108=%d, configured %d: %s", v, hbCfg, short(lg)))
		}
		if v, _ := Get(lg, TagEncrypt); v != fixgen.EnumEncryptMethodNoneother {
			w.Violate("initiator-logon-fields", "98", fmt.Sprintf("Logon carries 98=%q, configured %q", v, fixgen.EnumEncryptMethodNoneother))
		}
		if user != "" || pass != "" {
			u, _ := Get(lg, TagUsername)
			p, _ := Get(lg, TagPassword)
			if u != user || p != pass {
				w.Violate("initiator-logon-fields", "credentials", fmt.Sprintf("Logon carries 553=%q 554=%q, configured %q/%q", u, p, user, pass))
			}
		}
		if n, _ := GetInt(lg, TagMsgSeqNum); n != 1 {
			w.Violate("initiator-logon-fields", "34", fmt.Sprintf("first Logon carries 34=%d", n))
		}
		if s.IsLogged() {
			w.Violate("logged-without-valid-logon", "initiator-before-answer", "IsLogged() is true before any Logon came back")
		}
		if len(first) > 1 {
			w.Logf("note", "initiator sent %s before any answer", typesOf(first))
		}
	}

	type logonKind struct {
		hb     int
		method string
		user   string
		pass   string
		damage string // "", "sum", "len", "hb-text", "no-method"
	}
	mkLogon := func() (logonKind, string) {
		k := logonKind{hb: limits[0], method: "0", user: goodUser, pass: goodPass}
		name := "ok"
		switch w.W.Pick(6, 2, 2, 2, 2, 2, 1, 1, 1, 1, 1, 1) {
		case 0:
			k.hb = limits[0] + w.W.Draw(limits[1]-limits[0]+1)
		case 1:
			k.hb, name = limits[0]-1, "hb-below"
		case 2:
			k.hb, name = limits[1]+1, "hb-above"
		case 3:
			k.hb, name = limits[1], "ok-at-max"
		case 4:
			k.method, name = []string{"1", "2", "6", "x"}[w.W.Draw(4)], "bad-method"
		case 5:
			k.pass, name = "wrong", "bad-credentials"
		case 6:
			k.damage, name = "sum", "damaged-checksum"
		case 7:
			k.damage, name = "len", "damaged-length"
		case 8:
			k.damage, name = "hb-text", "damaged-hb-text"
		case 9:
			k.damage, name = "no-method", "missing-method"
		case 10:
			k.hb, k.method, name = limits[1]+5, "3", "bad-method-and-hb"
		case 11:
			k.hb, name = 0, "hb-zero"
		}
		return k, name
	}
	buildLogon := func(k logonKind) ([]byte, int) {
		seq := sc.NextSeq()
		body := LogonFields(k.hb, k.method, k.user, k.pass)
		switch k.damage {
		case "hb-text":
			txt, kind := NonNumeric(w.W, limits[0])
			body[1] = F(TagHeartBtInt, txt)
			w.Probe("hb_text_" + kind)
		case "no-method":
			body = body[1:]
		}
		fs := AdminMsg("A", seq, sc.PeerID, sc.LibID, body...)
		return Build(fs, WireOpts{BadSum: k.damage == "sum", BadLen: k.damage == "len"}), seq
	}
	acceptable := func(k logonKind) bool {
		if k.damage == "no-method" && role == "initiator" {
			return true
		}
		if k.damage != "" {
			return false
		}
		if role == "initiator" {
			return true // any parseable Logon answers the initiator's request
		}
		return k.method == "0" && k.hb >= limits[0] && k.hb <= limits[1] && k.user == goodUser && k.pass == goodPass
	}

	steps := 1 + w.W.Draw(w.Deep(14))
	for i := 0; i < steps && len(w.Viol) == 0; i++ {
		wasLogged := mayLogged
		staleProbe := probeOutstanding && !mayLogged && endedOnce
		kind := w.W.Pick(8, 2, 2, 2, 2, 1, 1, 1, 1, 1)
		label := ""
		var replies []RxMsg
		before := sc.Logons()
		switch kind {
		case 0: // a Logon
			k, name := mkLogon()
			raw, seq := buildLogon(k)
			label = "logon:" + name
			replies = dropTimer(sc.Step(raw))
			if !sc.checkFraming(replies) {
				return
			}
			ok := acceptable(k)
			w.State(fmt.Sprintf("%s/%v/%s", role, wasLogged, name))
			nLogon, nReject := count(replies, "A"), count(replies, "3")
			switch {
			case !wasLogged && ok && strict:
				// must log on; the acceptor answers with exactly one Logon echoing 108 and 98
				mayLogged, strict = true, false
				probeOutstanding = false
				if !s.IsLogged() {
					w.Violate("valid-logon-not-accepted", role, fmt.Sprintf("IsLogged() is false after an acceptable Logon (%s); replies %q", name, typesOf(replies)))
				}
				if sc.Logons() != before+1 {
					w.Violate("logon-event", role+"/missing", fmt.Sprintf("EventLogon fired %d times for an acceptable Logon", sc.Logons()-before))
				}
				logonEvents++
				if role == "acceptor" {
					if nLogon != 1 || nReject != 0 {
						w.Violate("logon-answer", "count", fmt.Sprintf("acceptable Logon answered by %q, want exactly one Logon", typesOf(replies)))
					} else {
						a := filterType(replies, "A")[0].Raw
						if v, _ := GetInt(a, TagHeartBtInt); v != k.hb {
							w.Violate("logon-answer", "108-not-echoed", fmt.Sprintf("Logon answer carries 108=%d, request had %d", v, k.hb))
						}
						if v, _ := Get(a, TagEncrypt); v != k.method {
							w.Violate("logon-answer", "98-not-echoed", fmt.Sprintf("Logon answer carries 98=%q, request had %q", v, k.method))
						}
					}
				} else if nLogon != 0 {
					w.Violate("logon-answer", "initiator-second-logon", "initiator sent another Logon on receiving the answer")
				}
			case !wasLogged && ok && !strict:
				// re-logon after a logout on the same connection: only the "only if" direction is demanded
				if s.IsLogged() {
					mayLogged = true
					probeOutstanding = false
				}
			case !wasLogged && !ok && strict:
				// refused or damaged Logon while waiting for one: one Reject naming its sequence number
				if s.IsLogged() {
					w.Violate("logged-without-valid-logon", role+"/"+name, "IsLogged() is true after a Logon that must be refused: "+name)
				}
				if role == "acceptor" || k.damage != "" {
					if k.damage == "no-method" {
						k.damage = "" // well-formed, only the method is unacceptable (names tag 98)
						k.method = ""
					}
					if nLogon != 0 {
						w.Violate("refused-logon-answered", name, fmt.Sprintf("refused Logon (%s) answered with a Logon", name))
					}
					if nReject != 1 {
						w.Violate("refused-logon-reject", "count/"+name, fmt.Sprintf("refused Logon (%s) answered by %q, want exactly one Reject", name, typesOf(replies)))
					} else {
						rj := filterType(replies, "3")[0].Raw
						ref, has := GetInt(rj, TagRefSeqNum)
						if !has || ref != seq {
							w.Violate("refused-logon-reject", "refseq/"+name, fmt.Sprintf("Reject carries 45=%d (present %v), the Logon had 34=%d: %s", ref, has, seq, short(rj)))
						}
						if k.damage == "" && role == "acceptor" {
							var offending []int
							if k.method != "0" {
								offending = append(offending, TagEncrypt)
							}
							if k.hb < limits[0] || k.hb > limits[1] {
								offending = append(offending, TagHeartBtInt)
							}
							if len(offending) > 0 {
								tag, has := GetInt(rj, TagRefTagID)
								okTag := false
								for _, o := range offending {
									okTag = okTag || o == tag
								}
								if !has || !okTag {
									w.Violate("refused-logon-reject", "reftag/"+name, fmt.Sprintf("Reject carries 371=%d (present %v), offending field(s) %v", tag, has, offending))
								}
							}
						}
					}
				}
			case wasLogged:
				// a further Logon while logged on: rejected, session undisturbed
				if !probeOutstanding {
					if nReject != 1 || nLogon != 0 {
						w.Violate("logon-while-logged", "reject-count", fmt.Sprintf("Logon (%s) while logged on answered by %q, want exactly one Reject", name, typesOf(replies)))
					} else if ref, has := GetInt(filterType(replies, "3")[0].Raw, TagRefSeqNum); !has || ref != seq {
						w.Violate("logon-while-logged", "refseq", fmt.Sprintf("Reject carries 45=%d (present %v), the Logon had 34=%d", ref, has, seq))
					}
					if !s.IsLogged() {
						w.Violate("logon-while-logged", "disturbed", "IsLogged() became false after a Logon received while logged on")
					}
					// the session must still serve: a TestRequest is echoed
					id := "P" + itoa(i)
					r2 := sc.Step(sc.Msg("1", F(TagTestReqID, id)))
					found := false
					for _, m := range r2 {
						if v, _ := Get(m.Raw, TagTestReqID); m.Type == "0" && v == id {
							found = true
						}
					}
					if !found {
						w.Violate("logon-while-logged", "not-serving", fmt.Sprintf("TestRequest after the rejected Logon was not echoed; got %q", typesOf(r2)))
					}
					w.Probe("logon_while_logged")
				}
			}
			if sc.Logons() != before && !(ok && !wasLogged) {
				w.Violate("logon-event", role+"/spurious", fmt.Sprintf("EventLogon fired on a Logon (%s) that must not log the session on", name))
			}
		case 1:
			label = "heartbeat"
			replies = sc.Step(sc.Msg("0"))
			probeOutstanding = false
		case 2:
			label = "testrequest"
			replies = sc.Step(sc.Msg("1", F(TagTestReqID, "T"+itoa(i))))
			probeOutstanding = false
		case 3:
			label = "resendrequest"
			replies = sc.Step(sc.Msg("2", FI(TagBeginSeqNo, 1), FI(TagEndSeqNo, w.W.Draw(3))))
			probeOutstanding = false
		case 4:
			label = "logout"
			replies = sc.Step(sc.Msg("5"))
			endedOnce = endedOnce || mayLogged
			mayLogged, strict = false, false
		case 5:
			label = "app"
			replies = sc.Step(sc.Msg("D", F(11, "ord"+itoa(i)), F(55, "BTC/USD")))
			probeOutstanding = false
		case 6:
			label = "unknown-type"
			replies = sc.Step(sc.Msg("ZZ", F(58, "hello")))
			probeOutstanding = false
		case 7:
			label = "local-send"
			_ = s.Send(fixgen.NewHeartbeat())
			sc.Settle()
			replies = sc.P.Take()
		case 8:
			label = "local-logout"
			_ = s.Logout()
			sc.Settle()
			replies = sc.P.Take()
			endedOnce = endedOnce || mayLogged
			mayLogged, strict = false, false
		case 9:
			label = "idle"
			d := time.Duration(w.W.Draw(2*sc.hbNow(hbCfg, limits)*1000+1)) * time.Millisecond
			simrt.Sleep(d)
			sc.Settle()
			replies = sc.P.Take()
			if count(replies, "1") > 0 {
				probeOutstanding = true
			}
			if sc.P.EOF {
				mayLogged, strict = false, false
			}
		}
		if sc.Logons() != before && kind != 0 {
			w.Violate("logon-event", role+"/spurious", "EventLogon fired on "+label)
		}
		// the invariant: logged on only through a valid, approved Logon exchange
		if s.IsLogged() && !mayLogged {
			cause := label
			if staleProbe {
				// the logon had ended, the library still probed the peer with a TestRequest, and this inbound message "answered" it
				cause = "inbound-after-logout-with-testrequest-outstanding"
			}
			w.Violate("logged-without-valid-logon", role+"/"+cause, fmt.Sprintf("IsLogged() is true after step %d (%s) although no acceptable Logon is in effect", i, label))
		}
		w.Logf("step", "%d %s -> %q logged=%v", i, label, typesOf(replies), s.IsLogged())
		if sc.P.EOF {
			break
		}
	}
	if mayLogged {
		w.Probe("reached_logged")
	}
	sc.Teardown()
}

func (sc *Script) hbNow(cfg int, limits [2]int) int {
	if sc.Role == "initiator" {
		return cfg
	}
	return limits[1]
}
