package harness

import (
	"fmt"
	"os"
	"runtime"
	"sort"
	"strconv"
	"strings"
	"sync"
	"testing"
	"testing/synctest"
	"time"

	"verif/simrt"
)

// Violation is one observed breach of a property. (Class, Key) identify it for
// minimisation and for the known-findings file; Detail is for humans.
type Violation struct {
	Class  string `json:"class"`
	Key    string `json:"key"`
	Detail string `json:"detail"`
}

// PropDef is one registered scenario family.
type PropDef struct {
	ID       string
	Run      func(w *World)
	MaxSim   time.Duration
	MaxSteps int64
	// PanicIsViolation: a panic recovered in any task is this property's violation
	// (elsewhere it only makes the run inconclusive).
	PanicIsViolation bool
	// Race: the scenario is meant for a -race build; detector reports become violations.
	Race bool
	// SpinIsViolation: once the scenario has set World.SpinKey (the termination cause has been
	// injected), running into the step limit means some goroutine never comes to rest: a violation
	// of this property (elsewhere the step limit only makes the run inconclusive).
	SpinIsViolation bool
	// Mandatory reach probes for the thorough tier.
	Mandatory []string
}

var Props = map[string]*PropDef{}

//go:norace
func Register(p *PropDef) { Props[p.ID] = p }

// Tapes is the replayable description of one run.
type Tapes struct {
	W []uint32 `json:"workload"`
	F []uint32 `json:"faults"`
	S []uint32 `json:"schedule"`
}

// World is the state of one simulated run.
type World struct {
	Prop  string
	Seed  uint64
	Index int
	W, F  *Tape
	S     *Tape
	Sched *simrt.Sched
	Net   *Net
	T0    time.Time

	cmu          sync.Mutex
	Viol         []Violation
	Probes       map[string]int
	Faults       map[string]int
	Events       []string
	Config       map[string]interface{}
	States       map[string]bool
	Inconclusive string
	SpinKey      string // set once a termination cause has been injected (see PropDef.SpinIsViolation)
	Nontrivial   bool
	traceAll     bool
	Tier         string
}

const maxSampleEvents = 48

//go:norace
func (w *World) Violate(class, key, detail string) {
	simrt.RaceDisable()
	w.cmu.Lock()
	for _, v := range w.Viol {
		if v.Class == class && v.Key == key {
			w.cmu.Unlock()
			simrt.RaceEnable()
			return
		}
	}
	w.Viol = append(w.Viol, Violation{class, key, detail})
	w.cmu.Unlock()
	simrt.RaceEnable()
	w.Logf("VIOLATION", "%s %s: %s", class, key, detail)
}

//go:norace
func (w *World) Probe(name string) {
	simrt.RaceDisable()
	w.cmu.Lock()
	w.Probes[name]++
	w.cmu.Unlock()
	simrt.RaceEnable()
}

//go:norace
func (w *World) Fault(name string) {
	simrt.RaceDisable()
	w.cmu.Lock()
	w.Faults[name]++
	w.Nontrivial = true
	w.cmu.Unlock()
	simrt.RaceEnable()
}

//go:norace
func (w *World) State(name string) {
	simrt.RaceDisable()
	w.cmu.Lock()
	w.States[name] = true
	w.cmu.Unlock()
	simrt.RaceEnable()
}

//go:norace
func (w *World) MarkNontrivial() {
	simrt.RaceDisable()
	w.cmu.Lock()
	w.Nontrivial = true
	w.cmu.Unlock()
	simrt.RaceEnable()
}

//go:norace
func (w *World) Cfg(k string, v interface{}) { w.Config[k] = v }

// Deep scales history lengths and task counts: the thorough tier explores longer runs, not
// only more of them.
//
//go:norace
func (w *World) Deep(n int) int {
	if w.Tier == "thorough" {
		return n * 3
	}
	return n
}

// Logf records an event: folded into the run hash, kept in the sample prefix.
//
//go:norace
func (w *World) Logf(kind, format string, a ...interface{}) {
	// all formatting happens before the race detector's sync events are switched off:
	// fmt recycles its printers through a sync.Pool whose ordering must stay visible
	d := fmt.Sprintf(format, a...)
	line := "t=" + w.Since().String() + " " + kind + " " + d
	if w.Sched != nil {
		w.Sched.Log(kind, d)
	}
	simrt.RaceDisable()
	w.cmu.Lock()
	if w.traceAll || len(w.Events) < maxSampleEvents {
		w.Events = append(w.Events, line)
	}
	w.cmu.Unlock()
	simrt.RaceEnable()
}

// Since is simulated time since the start of the run.
//
//go:norace
func (w *World) Since() time.Duration { return time.Since(w.T0) }

// SettleNet settles repeatedly until no injected bytes remain in flight.
//
//go:norace
func (w *World) SettleNet(conns ...*Conn) {
	for i := 0; i < 10000; i++ {
		simrt.Settle()
		var until time.Time
		pend := false
		for _, c := range conns {
			if c.Pending() > 0 {
				pend = true
				if t := c.PendingUntil(); t.After(until) {
					until = t
				}
			}
		}
		if !pend {
			return
		}
		if d := time.Until(until); d > 0 {
			simrt.Sleep(d)
		} else {
			// readable now but nobody reads (reader gone or stalled)
			stuck := true
			simrt.Settle()
			for _, c := range conns {
				if c.Pending() == 0 {
					stuck = false
				}
			}
			if stuck {
				return
			}
		}
	}
}

// RunResult is what one run produced.
type RunResult struct {
	Index        int
	Viol         []Violation
	Inconclusive string
	Abort        string
	Panics       []simrt.PanicInfo
	BubbleEnd    string
	Steps        int64
	Switches     int64
	Preempts     int64
	IdleJumps    int64
	SimTime      time.Duration
	Hash         uint64
	SwHash       uint64
	Pairs        map[string]int
	Probes       map[string]int
	Faults       map[string]int
	States       map[string]bool
	Nontrivial   bool
	Events       []string
	Config       map[string]interface{}
	Tapes        Tapes
	Alive        []simrt.TaskState
	Foreign      int
	Wall         time.Duration
}

// policyFor draws the scheduling policy of a run from its own seed (not from a
// tape: the policy only shapes how schedule values are generated; the values
// themselves are what is recorded and replayed).
//
//go:norace
func policyFor(seed uint64) (stickyDen, budget int) {
	r := rng{s: seed ^ 0x5ced}
	switch r.intn(6) {
	case 0:
		return 1, -1 // uniform random
	case 1:
		return 2, -1
	case 2:
		return 10, -1
	case 3:
		return 100, -1
	case 4:
		return 3, 1 + r.intn(5) // bounded preemption
	default:
		return 20, -1
	}
}

var wallLimit = func() time.Duration {
	if v, err := strconv.Atoi(os.Getenv("VERIF_WATCHDOG_S")); err == nil && v > 0 {
		return time.Duration(v) * time.Second
	}
	return 120 * time.Second
}()

// RunOne executes one run of prop in a fresh synctest bubble.
//
//go:norace
func RunOne(t *testing.T, prop *PropDef, seed uint64, index int, tier string, replay *Tapes, trace bool) *RunResult {
	rs := mixSeed(seed, uint64(index), 0x77)
	w := &World{Prop: prop.ID, Seed: seed, Index: index, Tier: tier,
		Probes: map[string]int{}, Faults: map[string]int{}, Config: map[string]interface{}{}, States: map[string]bool{}, traceAll: trace}
	var ch *schedChooser
	if replay != nil {
		w.W, w.F, w.S = ReplayTape(replay.W), ReplayTape(replay.F), ReplayTape(replay.S)
		ch = &schedChooser{t: w.S}
	} else {
		w.W, w.F, w.S = NewTape(mixSeed(rs, 1, 0)), NewTape(mixSeed(rs, 2, 0)), NewTape(mixSeed(rs, 3, 0))
		if r := (rng{s: rs ^ 0x9c71}); r.intn(4) == 0 {
			ch = newPCT(rs) // a quarter of the runs: priority scheduling with 0-3 change points
			ch.t = w.S
			w.Config["policy"] = "pct"
			w.Probes["policy_priority_pct"]++
		} else {
			sd, bud := policyFor(rs)
			ch = &schedChooser{t: w.S, stickyDen: sd, preemptBudget: bud}
			switch {
			case bud >= 0:
				w.Probes["policy_bounded_preemption"]++
			case sd == 1:
				w.Probes["policy_uniform"]++
			default:
				w.Probes["policy_sticky"]++
			}
		}
	}
	w.Net = &Net{w: w}
	res := &RunResult{Index: index}
	startWall := time.Now()
	wd := time.AfterFunc(wallLimit, func() {
		// the line first: the goroutine dump stops the world, which a goroutine stuck in non-preemptible
		// code (a racy slice header handed to the race runtime, say) can delay for ever; the driver kills
		// the process from outside in that case and still finds seed and index here
		fmt.Fprintf(os.Stderr, "WATCHDOG prop=%s seed=%d index=%d: run exceeded %v of wall time\n", prop.ID, seed, index, wallLimit)
		buf := make([]byte, 1<<20)
		n := runtime.Stack(buf, true)
		fmt.Fprintf(os.Stderr, "%s\n", buf[:n])
		os.Exit(3)
	})
	// On its own goroutine: when the race detector flags the bubble, synctest.Test ends
	// with t.FailNow(), i.e. runtime.Goexit, which must not take the worker loop with it.
	bubbleDone := make(chan struct{})
	go func() {
		defer close(bubbleDone)
		defer func() {
			if r := recover(); r != nil {
				res.BubbleEnd = fmt.Sprint(r)
			}
		}()
		synctest.Test(t, func(t *testing.T) {
			s := simrt.New(ch, synctest.Wait)
			if prop.MaxSteps > 0 {
				s.MaxSteps = prop.MaxSteps
			}
			if prop.MaxSim > 0 {
				s.MaxSimTime = prop.MaxSim
			}
			if trace {
				s.Trace = func(l string) {
					w.cmu.Lock()
					w.Events = append(w.Events, l)
					w.cmu.Unlock()
				}
			}
			w.Sched = s
			w.T0 = time.Now()
			s.Run("driver", func() { prop.Run(w) })
			res.SimTime = time.Since(w.T0)
			res.Alive = s.Alive()
		})
	}()
	<-bubbleDone
	wd.Stop()
	s := w.Sched
	res.Wall = time.Since(startWall)
	if prop.PanicIsViolation {
		for _, p := range s0(w).Panics {
			site := panicSite(p.Stack)
			w.Viol = append(w.Viol, Violation{Class: "panic", Key: site, Detail: fmt.Sprintf("task %s (%s) panicked: %s\n%s", p.Task, p.Name, p.Value, trimStack(p.Stack))})
		}
	} else if len(s0(w).Panics) > 0 && w.Inconclusive == "" {
		w.Inconclusive = "panic"
	}
	if prop.Race && simrt.RaceEnabled {
		rv, ign := collectRaces()
		w.Viol = append(w.Viol, rv...)
		w.Probes["race_reports_outside_library_ignored"] += ign
	}
	if prop.SpinIsViolation && w.SpinKey != "" && s.AbortReason() == "steplimit" {
		var busy []string
		for _, t := range res.Alive {
			if !t.Harness {
				busy = append(busy, t.Name+"@"+t.Site)
			}
		}
		sort.Strings(busy)
		w.Viol = append(w.Viol, Violation{Class: "livelock", Key: w.SpinKey, Detail: fmt.Sprintf("%d scheduling steps after the termination cause and still something runs (no task sleeps or blocks for good); library tasks alive: %s", s.Steps, strings.Join(busy, ", "))})
		w.Inconclusive = ""
	}
	res.Viol = w.Viol
	res.Inconclusive = w.Inconclusive
	res.Abort = s.AbortReason()
	res.Panics = s.Panics
	res.Steps, res.Switches, res.Preempts, res.IdleJumps = s.Steps, s.Switches, s.Preempts, s.IdleJumps
	res.Hash, res.SwHash, res.Pairs = s.Hash(), s.SwitchHash(), s.Pairs()
	res.Probes, res.Faults, res.States = w.Probes, w.Faults, w.States
	res.Nontrivial = w.Nontrivial
	res.Events, res.Config = w.Events, w.Config
	res.Tapes = Tapes{W: w.W.Rec, F: w.F.Rec, S: w.S.Rec}
	res.Foreign = s.Foreign()
	if res.Abort != "" && res.Abort != "panic" && res.Inconclusive == "" && len(res.Viol) == 0 {
		res.Inconclusive = res.Abort
	}
	return res
}

//go:norace
func sortedKeys(m map[string]int) []string {
	ks := make([]string, 0, len(m))
	for k := range m {
		ks = append(ks, k)
	}
	sort.Strings(ks)
	return ks
}

// libFrames reduces a goroutine stack dump to the library function names in it.
//
//go:norace
func libFrames(stack string) []string {
	var out []string
	for _, l := range strings.Split(stack, "\n") {
		if strings.HasPrefix(l, "github.com/b2broker/simplefix-go") {
			if i := strings.LastIndex(l, "("); i > 0 {
				l = l[:i]
			}
			out = append(out, strings.TrimPrefix(l, "github.com/b2broker/simplefix-go"))
		}
	}
	return out
}

//go:norace
func s0(w *World) *simrt.Sched { return w.Sched }

//go:norace
func trimStack(st string) string {
	lines := strings.Split(st, "\n")
	var out []string
	for _, l := range lines {
		if strings.Contains(l, "simplefix-go") || strings.HasPrefix(l, "panic(") {
			out = append(out, strings.TrimSpace(l))
		}
		if len(out) > 12 {
			break
		}
	}
	return strings.Join(out, "\n")
}
