package harness

import (
	"fmt"
	"time"

	"github.com/b2broker/simplefix-go/fix"
	"github.com/b2broker/simplefix-go/session"
	"github.com/b2broker/simplefix-go/session/messages"
	fixgen "github.com/b2broker/simplefix-go/tests/fix44"

	simplefixgo "github.com/b2broker/simplefix-go"

	"verif/simrt"
)

func init() {
	Register(&PropDef{ID: "C05", Run: c05, MaxSim: 2 * time.Hour})
}

type appSend struct {
	id     string
	task   int
	n      int
	invoke time.Time
	seq    int
	err    error
}

// c05: concurrent senders + timer heartbeats + inbound-triggered replies under the
// seeded scheduler; oracle on the peer-side wire bytes.
func c05(w *World) {
	role := []string{"acceptor", "initiator"}[w.W.Draw(2)]
	buf := []int{0, 1, 10}[w.W.Draw(3)]
	hb := 1 + w.W.Draw(3)
	delays := w.W.Draw(3) // 0 none, 1 yields only, 2 fake-time sleeps inside store and handlers
	w.Cfg("role", role)
	w.Cfg("buf", buf)
	w.Cfg("hb", hb)
	w.Cfg("delays", delays)
	store := NewStore(w)
	store.Quiet = true
	store.Delay = func(op string) {
		if delays == 2 && w.W.Chance(1, 4) {
			simrt.Sleep(time.Duration(1+w.W.Draw(30)) * time.Millisecond)
		}
	}
	phases := 1
	if w.W.Chance(3, 10) {
		phases = 2
	}
	w.Cfg("phases", phases)

	var acc *AccSide
	if role == "acceptor" {
		acc = w.StartAcceptor(AccCfg{HandlerBuf: buf, WriteTimeout: time.Minute, HBMin: 1, HBMax: 60, Store: store})
	}
	for phase := 1; phase <= phases && len(w.Viol) == 0; phase++ {
		cur, _ := store.Real.GetCurrSeqNum(fix.StorageID{Side: fix.Outgoing})
		start := cur + 1
		var cl *Client
		var s *session.Session
		var router session.Handler
		var ini *InitSide
		libID, peerID := "LIB", fmt.Sprintf("PEER%d", phase)
		if role == "acceptor" {
			cl = w.NewClient(acc, fmt.Sprintf("conn%d", phase), peerID, libID)
			if len(acc.Sess) < phase {
				w.Inconclusive = "no-session"
				return
			}
			s = acc.Sess[phase-1].S
			router = s.Router
		} else {
			libID, peerID = "Client", "Server"
			a, b := w.Net.Pipe(fmt.Sprintf("conn%d", phase), -1, -1)
			cl = &Client{w: w, P: NewPeer(w, b, "peer"), PeerID: peerID, LibID: libID}
			ini = w.StartInitiator(InitCfg{HandlerBuf: buf, ConnBuf: buf, WriteDeadline: time.Minute, HeartBtInt: hb, Store: store, Sender: libID, Target: peerID}, a)
			cl.Settle()
			s = ini.S
			router = s.Router
		}
		// an outgoing handler that only delays (never refuses): the quantifier's "arbitrary delays"
		router.HandleOutgoing(simplefixgo.AllMsgTypes, func(m simplefixgo.SendingMessage) bool {
			simrt.Yield("harness.outHandler")
			if delays == 2 && w.W.Chance(1, 5) {
				simrt.Sleep(time.Duration(1+w.W.Draw(20)) * time.Millisecond)
			}
			return true
		})
		if role == "acceptor" && w.W.Chance(1, 3) {
			// a Logon that is refused first: its Reject is numbered and addressed like everything else
			cl.Step(cl.Msg("A", LogonFields(100, "0", "", "")...))
			w.Probe("refused_logon_first")
		}
		cl.Step(cl.Msg("A", LogonFields(hb, "0", "", "")...))
		if !s.IsLogged() {
			w.Inconclusive = "logon-failed"
			return
		}
		logonAt := time.Now()

		var sends []*appSend
		nTasks := 1 + w.W.Draw(8)
		per := 1 + w.W.Draw(w.Deep(12))
		if w.W.Chance(1, 8) {
			per = 12 + w.W.Draw(19)
		}
		spread := w.W.Draw(3) // 0: burst, 1: some ms apart, 2: around heartbeat periods
		done := 0
		for t := 0; t < nTasks; t++ {
			t := t
			// a task may send one message object again and again (as the repository's own high-load test
			// does), changing only its identifier: what was handed over earlier must not change under it
			reuse := w.W.Chance(1, 3)
			var reHB *fixgen.Heartbeat
			var reMD *fixgen.MarketDataRequest
			simrt.GoHarness("sender", func() {
				for i := 0; i < per; i++ {
					id := fmt.Sprintf("p%d-t%d-i%d", phase, t, i)
					var m messages.Message
					if w.W.Chance(1, 2) {
						if reuse && reHB != nil {
							m = reHB.SetTestReqID(id)
							w.Probe("message_object_reused")
						} else {
							reHB = fixgen.NewHeartbeat().SetTestReqID(id)
							m = reHB
						}
					} else {
						if reuse && reMD != nil {
							m = reMD.SetMDReqID(id)
							w.Probe("message_object_reused")
						} else {
							reMD = fixgen.NewMarketDataRequest().SetMDReqID(id).SetSubscriptionRequestType("1").SetMarketDepth(1)
							m = reMD
						}
					}
					r := &appSend{id: id, task: t, n: i, invoke: time.Now()}
					r.err = s.Send(m)
					r.seq = m.HeaderBuilder().MsgSeqNum()
					sends = append(sends, r)
					switch spread {
					case 1:
						simrt.Sleep(time.Duration(w.W.Draw(40)) * time.Millisecond)
					case 2:
						simrt.Sleep(time.Duration(w.W.Draw(hb*600)) * time.Millisecond)
					}
				}
				done++
			})
		}
		// inbound traffic that makes the inbound goroutine send too
		nIn := w.W.Draw(8)
		for i := 0; i < nIn; i++ {
			switch w.W.Draw(3) {
			case 0:
				cl.P.Send(cl.Msg("1", F(TagTestReqID, fmt.Sprintf("q%d-%d", phase, i))))
			case 1:
				cl.P.Send(Build(AdminMsg("0", cl.NextSeq(), cl.PeerID, cl.LibID), WireOpts{BadSum: true}))
			default:
				cl.P.Send(cl.Msg("0"))
			}
			if spread == 0 {
				simrt.Yield("harness.inbound")
			} else {
				simrt.Sleep(time.Duration(w.W.Draw(hb*400)) * time.Millisecond)
			}
		}
		// keep the peer alive (so the library does not disconnect) until the senders are done
		for done < nTasks {
			simrt.Sleep(time.Duration(hb) * 500 * time.Millisecond)
			cl.P.Send(cl.Msg("0"))
			simrt.Settle()
			if cl.P.EOF {
				break
			}
		}
		cl.Settle()
		if w.W.Chance(1, 2) {
			simrt.Sleep(time.Duration(w.W.Draw(hb*2500)) * time.Millisecond) // idle: timer heartbeats
			cl.P.Send(cl.Msg("0"))
			cl.Settle()
		}
		wire := cl.P.Msgs()
		if !cl.checkFraming(wire) {
			return
		}
		if cl.P.EOF {
			w.Inconclusive = "disconnected"
			return
		}
		// ---- oracle ----
		byID := map[string]*appSend{}
		for _, r := range sends {
			byID[r.id] = r
			if r.err != nil {
				w.Inconclusive = "send-error" // precondition of the property broken (should not happen)
				return
			}
		}
		if start != 1 {
			w.Probe("continued_from_stored_counter")
		}
		lastTaskSeq := map[int]int{}
		var prevTime time.Time
		for k, m := range wire {
			n, ok := GetInt(m.Raw, TagMsgSeqNum)
			if !ok || n != start+k {
				kind := "gap"
				if ok && n < start+k {
					kind = "duplicate-or-reordered"
				}
				w.Violate("sequence-not-consecutive", kind, fmt.Sprintf("message %d on the wire carries 34=%d, want %d (start %d): types so far %q", k, n, start+k, start, typesOf(wire[:k+1])))
				break
			}
			if snd, _ := Get(m.Raw, TagSenderCompID); snd != libID {
				w.Violate("wrong-comp-id", "49", fmt.Sprintf("34=%d carries 49=%q, want %q", n, snd, libID))
			}
			if tgt, _ := Get(m.Raw, TagTargetCompID); tgt != peerID {
				w.Violate("wrong-comp-id", "56", fmt.Sprintf("34=%d carries 56=%q, want %q", n, tgt, peerID))
			}
			ts, _ := Get(m.Raw, TagSendingTime)
			tm, err := time.Parse("20060102-15:04:05.000", ts)
			if err != nil {
				w.Violate("sending-time-format", "", fmt.Sprintf("34=%d carries 52=%q", n, ts))
				continue
			}
			// numbers are handed out and times are taken in one critical section: along the
			// sequence the send times can never go backwards
			if tm.Before(prevTime) {
				w.Violate("sending-time-order", "", fmt.Sprintf("34=%d carries 52=%s, earlier than the 52=%s of the message numbered before it: the time was not taken when the message was sent", n, ts, prevTime.Format("15:04:05.000")))
			}
			prevTime = tm
			if tm.After(m.At.UTC()) {
				w.Violate("sending-time-range", "after-arrival", fmt.Sprintf("34=%d carries 52=%s but arrived at %s", n, ts, m.At.UTC().Format("15:04:05.000")))
			}
			id, _ := Get(m.Raw, TagTestReqID)
			if m.Type == "V" {
				id, _ = Get(m.Raw, 262)
			}
			if r := byID[id]; r != nil {
				if tm.Before(r.invoke.UTC().Truncate(time.Millisecond)) {
					w.Violate("sending-time-range", "before-send", fmt.Sprintf("34=%d carries 52=%s but Send was invoked at %s", n, ts, r.invoke.UTC().Format("15:04:05.000")))
				}
				if n != r.seq {
					w.Violate("sequence-mismatch", "", fmt.Sprintf("message %s was numbered %d by Send but carries 34=%d", id, r.seq, n))
				}
				if last, ok := lastTaskSeq[r.task]; ok && n < last {
					w.Violate("task-order", "", fmt.Sprintf("task %d's messages left out of order", r.task))
				}
				lastTaskSeq[r.task] = n
				delete(byID, id)
			} else if tm.Before(logonAt.UTC().Truncate(time.Millisecond)) && k > 0 {
				w.Violate("sending-time-range", "stale", fmt.Sprintf("34=%d carries 52=%s, older than the logon at %s", n, ts, logonAt.UTC().Format("15:04:05.000")))
			}
		}
		if len(byID) != 0 && len(w.Viol) == 0 {
			w.Violate("sent-message-missing", "", fmt.Sprintf("Send returned nil for %s (and %d more) but it never reached the wire", minKey(byID), len(byID)-1))
		}
		if count(wire, "0") > len(sends) {
			w.Probe("library_heartbeats_interleaved")
		}
		if count(wire, "3") > 0 {
			w.Probe("reject_raced")
		}
		if nTasks > 1 {
			w.Probe("concurrent_senders")
		}
		// ---- end of phase: quiescent close ----
		if role == "acceptor" {
			cl.P.C.CloseNow()
		} else {
			ini.I.Close()
			cl.P.C.CloseNow()
		}
		simrt.Sleep(100 * time.Millisecond)
		simrt.Settle()
		// "a later session": the earlier one has ended for good before the next one starts. Its handler
		// loop may still be working through queued inbound messages after the close (each reply it builds
		// takes a number from the shared counter although it can no longer be sent); a thorough run with
		// slow store calls once started the second session in the middle of that and reported a gap.
		ended := func() bool {
			if role == "acceptor" {
				as := acc.Sess[phase-1]
				return as.Stopped+as.HDisc > 0
			}
			return ini.Served
		}
		for i := 0; i < 600 && !ended(); i++ {
			simrt.Sleep(50 * time.Millisecond)
			simrt.Settle()
		}
		if !ended() {
			w.Inconclusive = "earlier-session-not-ended" // whether it ends is C13's subject
			return
		}
	}
	if acc != nil {
		acc.A.Close()
	}
	simrt.Sleep(20 * time.Millisecond)
	simrt.Settle()
}

func minKey(m map[string]*appSend) string {
	best := ""
	for k := range m {
		if best == "" || k < best {
			best = k
		}
	}
	return best
}
