package harness

import (
	"bytes"
	"context"
	"fmt"
	"strings"
	"time"

	simplefixgo "github.com/b2broker/simplefix-go"
	"github.com/b2broker/simplefix-go/session/messages"

	"verif/simrt"
)

func init() {
	Register(&PropDef{ID: "C04", Run: c04, MaxSim: 2 * time.Hour})
}

// recHandler is the real DefaultHandler observed at ServeIncoming.
type recHandler struct {
	*simplefixgo.DefaultHandler
	w         *World
	served    [][]byte // handed to the handler by the connection reader
	got       [][]byte // dispatched to the all-types incoming callback
	inCb      int
	slowEvery int
	ncb       int
}

func (r *recHandler) ServeIncoming(msg []byte) {
	r.served = append(r.served, append([]byte(nil), msg...))
	r.DefaultHandler.ServeIncoming(msg)
}

func (r *recHandler) onIncoming(msg []byte) bool {
	if r.inCb != 0 {
		r.w.Violate("callback-overlap", "incoming", "two incoming callbacks of one connection ran at the same time")
	}
	r.inCb++
	r.ncb++
	simrt.Yield("harness.incoming-callback")
	if r.slowEvery > 0 && r.ncb%r.slowEvery == 0 {
		simrt.Sleep(3 * time.Millisecond) // a slow consumer: hand-offs back up
		r.w.Probe("slow_consumer")
	}
	r.got = append(r.got, append([]byte(nil), msg...))
	r.inCb--
	return true
}

type recFactory struct {
	w        *World
	buf      int
	slow     int
	handlers []*recHandler
}

func (f *recFactory) MakeHandler(ctx context.Context) simplefixgo.AcceptorHandler {
	h := &recHandler{DefaultHandler: simplefixgo.NewAcceptorHandler(ctx, "35", f.buf), w: f.w, slowEvery: f.slow}
	f.handlers = append(f.handlers, h)
	return h
}

// genMessage builds one well-formed message tagged with (connection, index).
func genMessage(t *Tape, conn, idx int) []byte {
	typ := []string{"0", "D", "8", "V", "AE", "A", "5", "j", "XX"}[t.Draw(9)]
	fs := []Field{{Tag: "35", Val: typ}, F(TagText, fmt.Sprintf("c%d-m%d", conn, idx))}
	nf := t.Draw(6)
	for i := 0; i < nf; i++ {
		tag := []int{11, 55, 110, 210, 1, 100, 1010, 9999, 96, 354}[t.Draw(10)]
		var val string
		switch t.Pick(4, 3, 2, 1, 1, 1) {
		case 5:
			val = strings.Repeat("x", t.Draw(3)) + strings.Repeat("10=", 1000+t.Draw(2000)) // longer than a read buffer, "10=" everywhere
		case 0:
			val = "v" + itoa(t.Draw(100000))
		case 1:
			val = []string{"10=", "10=123", "x10=000", "=10=", "110=7", "8=FIX.4.4", "9=12", "35=A", "=", "10", "1", "0="}[t.Draw(12)]
		case 2:
			val = strings.Repeat("p", 1+t.Draw(200))
		case 3:
			val = strings.Repeat("L", 1000+t.Draw(7000))
		default:
			val = "10=" + itoa(t.Draw(1000)) + "|10=" // lookalike without SOH
		}
		fs = append(fs, F(tag, val))
	}
	return Build(fs, WireOpts{})
}

func c04(w *World) {
	role := []string{"acceptor", "initiator"}[w.W.Draw(2)]
	hbuf := []int{0, 1, 2, 10}[w.W.Draw(4)]
	cbuf := []int{0, 1, 10}[w.W.Draw(3)]
	nconn := 1
	if role == "acceptor" {
		nconn = 1 + w.W.Draw(4)
	}
	slow := []int{0, 0, 3, 1}[w.W.Draw(4)]
	wdl := time.Minute
	if w.F.Chance(1, 4) {
		wdl = time.Duration(100+w.F.Draw(400)) * time.Millisecond // short enough to expire while the peer does not read
	}
	w.Cfg("write_deadline", wdl.String())
	w.Cfg("role", role)
	w.Cfg("handler_buf", hbuf)
	w.Cfg("conn_buf", cbuf)
	w.Cfg("connections", nconn)

	conns := make([]*c04conn, nconn)
	var closeAll func()
	fac := &recFactory{w: w, buf: hbuf, slow: slow}
	if role == "acceptor" {
		ln := w.Net.Listen()
		acc := simplefixgo.NewAcceptor(ln, fac, wdl, func(h simplefixgo.AcceptorHandler) {
			rh := h.(*recHandler)
			h.HandleIncoming(simplefixgo.AllMsgTypes, rh.onIncoming)
		})
		simrt.GoHarness("acceptor.ListenAndServe", func() { _ = acc.ListenAndServe() })
		for i := range conns {
			cli, _ := ln.Dial(fmt.Sprintf("c%d", i), -1, -1)
			conns[i] = &c04conn{peer: NewPeer(w, cli, fmt.Sprintf("peer%d", i))}
		}
		closeAll = func() {
			for _, c := range conns {
				c.peer.C.CloseNow()
			}
			acc.Close()
		}
	} else {
		a, b := w.Net.Pipe("c0", -1, -1)
		rh := &recHandler{DefaultHandler: simplefixgo.NewInitiatorHandler(context.Background(), "35", hbuf), w: w, slowEvery: slow}
		rh.HandleIncoming(simplefixgo.AllMsgTypes, rh.onIncoming)
		fac.handlers = append(fac.handlers, rh)
		ini := simplefixgo.NewInitiator(a, rh, cbuf, wdl)
		simrt.GoHarness("initiator.Serve", func() { _ = ini.Serve() })
		conns[0] = &c04conn{peer: NewPeer(w, b, "peer0")}
		closeAll = func() { ini.Close(); conns[0].peer.C.CloseNow() }
	}
	simrt.Settle()

	// ---- inbound: generated streams, generated partition and timing ----
	for ci, c := range conns {
		n := w.W.Draw(w.Deep(25))
		if w.W.Chance(1, 10) {
			n = 25 + w.W.Draw(16)
		}
		for i := 0; i < n; i++ {
			c.sent = append(c.sent, genMessage(w.W, ci, i))
		}
		if w.W.Chance(1, 3) {
			m := genMessage(w.W, ci, n)
			c.tail = m[:1+w.W.Draw(len(m)-1)] // a proper prefix of one more message
			w.Probe("trailing_partial")
		}
	}
	if nconn >= 2 {
		w.Probe("multi_connection")
	}
	if hbuf == 0 {
		w.Probe("buffer_zero")
	}
	// deliver: interleave the connections' chunks in a drawn order
	type chunk struct {
		c    int
		data []byte
	}
	var chunks []chunk
	for ci, c := range conns {
		var stream []byte
		for _, m := range c.sent {
			stream = append(stream, m...)
		}
		stream = append(stream, c.tail...)
		// cut the whole stream (not message by message): coalescing and splitting both arise
		mode := w.W.Pick(2, 1, 3, 3, 3)
		if mode == 1 && len(stream) > 3000 {
			mode = 3
		}
		shape := w.ShapeWith(w.W, mode, 0)
		for _, s := range shape(stream) {
			chunks = append(chunks, chunk{ci, s.data})
		}
		if mode == 1 {
			w.Probe("one_byte_reads")
		}
		if mode == 0 && len(c.sent) >= 2 {
			w.Probe("many_messages_one_read")
		}
	}
	// record which boundaries we hit
	for _, ch := range chunks {
		d := ch.data
		if len(d) > 0 {
			if bytes.HasSuffix(d, []byte("\x011")) || bytes.HasSuffix(d, []byte("\x0110")) {
				w.Probe("boundary_inside_checksum_tag")
			}
			if n := len(d); n >= 5 && d[n-1] >= '0' && d[n-1] <= '9' && bytes.Contains(d[max0(n-7):], []byte("\x0110=")) {
				w.Probe("boundary_inside_checksum_digits")
			}
		}
	}
	idx := make([]int, nconn)
	perConn := make([][]chunk, nconn)
	for _, ch := range chunks {
		perConn[ch.c] = append(perConn[ch.c], ch)
	}
	remaining := len(chunks)
	checkPrefix := func() {
		for _, h := range fac.handlers {
			verifyDelivered(w, h, conns, false)
		}
	}
	for remaining > 0 && len(w.Viol) == 0 {
		ci := w.W.Draw(nconn)
		for idx[ci] >= len(perConn[ci]) {
			ci = (ci + 1) % nconn
		}
		ch := perConn[ci][idx[ci]]
		idx[ci]++
		remaining--
		conns[ci].peer.C.Inject([]seg{{data: ch.data}})
		switch w.W.Pick(5, 2, 1) {
		case 0:
			simrt.Yield("harness.deliver") // let the schedule decide how far the readers get
		case 1:
			simrt.Settle()
			checkPrefix()
		case 2:
			simrt.Sleep(time.Duration(1+w.W.Draw(20)) * time.Millisecond)
		}
	}
	pcs := make([]*Conn, 0, nconn)
	for _, c := range conns {
		pcs = append(pcs, c.peer.C)
	}
	w.SettleNet(pcs...)
	nAll := 0
	for _, c := range conns {
		nAll += len(c.sent)
	}
	simrt.Sleep(time.Duration(50+4*nAll) * time.Millisecond) // slow consumers (3 ms per message) finish
	simrt.Settle()
	for _, h := range fac.handlers {
		verifyDelivered(w, h, conns, true)
	}
	// every connection's messages were delivered to exactly one handler
	if len(w.Viol) == 0 {
		total := 0
		for _, h := range fac.handlers {
			total += len(h.got)
		}
		want := 0
		for _, c := range conns {
			want += len(c.sent)
		}
		if total != want {
			w.Violate("inbound-count", role, fmt.Sprintf("%d messages sent over %d connection(s), %d delivered", want, nconn, total))
		}
	}

	// ---- outbound: concurrent hand-offs, paced reader ----
	if len(w.Viol) == 0 {
		c04outbound(w, fac.handlers, conns, wdl)
	}
	closeAll()
	simrt.Sleep(20 * time.Millisecond)
	simrt.Settle()
}

func max0(n int) int {
	if n < 0 {
		return 0
	}
	return n
}

type c04conn struct {
	peer *Peer
	sent [][]byte
	tail []byte
}

// verifyDelivered: what a handler was given is a prefix of (final: equal to) what
// exactly one connection sent, byte for byte, at both observation points.
func verifyDelivered(w *World, h *recHandler, conns []*c04conn, final bool) {
	for _, obs := range []struct {
		name string
		list [][]byte
	}{{"ServeIncoming", h.served}, {"incoming-callback", h.got}} { // fixed order: never range over a map here
		name, list := obs.name, obs.list
		if len(list) == 0 {
			continue
		}
		// attribute by the first message
		var src *c04conn
		for _, c := range conns {
			if len(c.sent) > 0 && bytes.Equal(c.sent[0], list[0]) {
				src = c
			}
		}
		if src == nil {
			w.Violate("inbound-not-as-sent", name+"/first", fmt.Sprintf("first message delivered at %s is not the first message of any connection: %s", name, short(list[0])))
			return
		}
		if len(list) > len(src.sent) {
			w.Violate("inbound-extra", name, fmt.Sprintf("%d messages delivered at %s, the peer sent %d complete ones; extra: %s", len(list), name, len(src.sent), short(list[len(src.sent)])))
			return
		}
		for i := range list {
			if !bytes.Equal(list[i], src.sent[i]) {
				kind := "altered"
				for _, c := range conns {
					for _, m := range c.sent {
						if bytes.Equal(m, list[i]) {
							kind = "reordered-or-duplicated"
							if c != src {
								kind = "cross-connection"
							}
						}
					}
				}
				w.Violate("inbound-not-as-sent", name+"/"+kind, fmt.Sprintf("message %d delivered at %s differs from message %d sent (%s):\n got  %s\n sent %s", i, name, i, kind, short(list[i]), short(src.sent[i])))
				return
			}
		}
		if final && len(list) != len(src.sent) {
			w.Violate("inbound-missing", name, fmt.Sprintf("%d of %d messages delivered at %s after the stream was fully delivered and the system settled", len(list), len(src.sent), name))
		}
	}
	if final && len(h.got) == 0 && len(h.served) == 0 {
		return
	}
}

type handoff struct {
	batchAfter *handoff // second message of a SendBatch: must directly follow this one on the wire
	payload    []byte
	task       int
	invoke     uint64
	ret        uint64
	err        error
}

// c04outbound: 1-4 tasks hand unique payloads to each handler while the peer reads at
// a drawn pace; the captured stream must be exactly those payloads, whole, each once,
// in hand-off order.
func c04outbound(w *World, hs []*recHandler, conns []*c04conn, wdl time.Duration) {
	for hi, h := range hs {
		// find the peer of this handler: by the connection it served, else unused peers in order
		var p *Peer
		for _, c := range conns {
			if len(h.got) > 0 && len(c.sent) > 0 && bytes.Equal(h.got[0], c.sent[0]) {
				p = c.peer
			}
		}
		if p == nil {
			if len(conns) == 1 {
				p = conns[0].peer
			} else {
				continue // cannot attribute a silent connection to a handler
			}
		}
		before := len(p.Stream())
		nt := 1 + w.W.Draw(4)
		per := 1 + w.W.Draw(6)
		var offs []*handoff
		done := 0
		stall := w.W.Chance(1, 3) || wdl < time.Minute
		if stall {
			p.C.SetInCap(64 + w.W.Draw(512))
			p.C.Stall(true)
			w.Probe("reader_stalled")
		}
		expire := stall && wdl < time.Minute // the peer stays away longer than the write deadline
		for t := 0; t < nt; t++ {
			t := t
			simrt.GoHarness("handoff", func() {
				for i := 0; i < per; i++ {
					fs := []Field{{Tag: "35", Val: "D"}, F(TagText, fmt.Sprintf("h%d-t%d-i%d", hi, t, i)), F(96, strings.Repeat("z", w.W.Draw(300)))}
					o := &handoff{payload: Build(fs, WireOpts{}), task: t, invoke: w.Sched.NextSeq()}
					switch w.W.Draw(3) {
					case 0:
						o.err = h.SendRaw(o.payload)
					case 1:
						o.err = h.Send(messages.NewMockMessage("D", o.payload, nil))
					default:
						// a batch: its messages leave whole and in order
						fs2 := []Field{{Tag: "35", Val: "D"}, F(TagText, fmt.Sprintf("h%d-t%d-i%d-b", hi, t, i)), F(96, strings.Repeat("y", w.W.Draw(200)))}
						o2 := &handoff{payload: Build(fs2, WireOpts{}), task: t, invoke: o.invoke, batchAfter: o}
						err := h.SendBatch([]simplefixgo.SendingMessage{messages.NewMockMessage("D", o.payload, nil), messages.NewMockMessage("D", o2.payload, nil)})
						o.err, o2.err = err, err
						o2.ret = w.Sched.NextSeq()
						o.ret = o2.ret
						offs = append(offs, o, o2)
						w.Probe("batch_handoff")
						continue
					}
					o.ret = w.Sched.NextSeq()
					offs = append(offs, o)
				}
				done++
			})
		}
		if stall {
			d := time.Duration(1+w.W.Draw(2000)) * time.Millisecond
			if expire {
				d = wdl + time.Duration(w.W.Draw(int(2*wdl/time.Millisecond)))*time.Millisecond
			}
			simrt.Sleep(d)
			p.C.Stall(false)
			p.C.SetInCap(-1)
		}
		simrt.WaitFor("handoffs-done", func() bool { return done == nt })
		w.SettleNet(p.C)
		simrt.Settle()
		out := p.Stream()[before:]
		msgs, rest := Split(out)
		died := p.EOF || w.Faults["write_deadline"] > 0
		if len(rest) != 0 {
			// an incomplete tail is legitimate only when the connection died in the middle of a write
			// (deadline expired after part of the message had been taken); it must then be the
			// beginning of a handed-off message and nothing may follow it
			okTail := false
			if died {
				for _, o := range offs {
					if bytes.HasPrefix(o.payload, rest) {
						okTail = true
					}
				}
			}
			if !okTail {
				w.Violate("outbound-torn", "trailing", fmt.Sprintf("outbound stream ends with an incomplete message: %s", short(rest)))
			} else {
				w.Probe("torn_tail_after_write_deadline")
			}
		}
		pos := map[string]int{}
		for i, m := range msgs {
			k := string(m)
			if _, dup := pos[k]; dup {
				w.Violate("outbound-duplicate", "", fmt.Sprintf("a handed-off message appears twice on the wire: %s", short(m)))
			}
			pos[k] = i
		}
		okCount := 0
		for _, o := range offs {
			if o.err != nil {
				continue
			}
			okCount++
			if _, ok := pos[string(o.payload)]; !ok && !died {
				w.Violate("outbound-missing-or-torn", "", fmt.Sprintf("a handed-off message is not on the wire whole: %s; wire has %d message(s)", short(o.payload), len(msgs)))
			}
		}
		for _, m := range msgs {
			known := false
			for _, o := range offs {
				if bytes.Equal(o.payload, m) {
					known = true
				}
			}
			if !known {
				w.Violate("outbound-garbled", "", fmt.Sprintf("the outbound stream contains a message nobody handed off (torn or interleaved bytes): %s", short(m)))
				break
			}
		}
		if len(msgs) > okCount && len(w.Viol) == 0 && !died {
			w.Violate("outbound-extra", "", fmt.Sprintf("%d messages on the wire, %d were handed off", len(msgs), okCount))
		}
		for _, b := range offs {
			if b.batchAfter != nil && b.err == nil {
				pa, oka := pos[string(b.batchAfter.payload)]
				pb, okb := pos[string(b.payload)]
				// (another hand-off may fall between the two: SendRaw does not take the handler's lock, and
				// the statement only asks for whole messages in hand-off order)
				if oka && okb && pb < pa {
					w.Violate("outbound-order", "within-batch", "the two messages of one SendBatch left in the opposite order")
				}
			}
		}
		for _, a := range offs {
			for _, b := range offs {
				if a.err == nil && b.err == nil && a.ret < b.invoke {
					pa, oka := pos[string(a.payload)]
					pb, okb := pos[string(b.payload)]
					if oka && okb && pa > pb {
						kind := "across-tasks"
						if a.task == b.task {
							kind = "same-task"
						}
						w.Violate("outbound-order", kind, fmt.Sprintf("hand-off A returned (event %d) before hand-off B was invoked (event %d) but B precedes A on the wire", a.ret, b.invoke))
					}
				}
			}
		}
		w.Probe("outbound_checked")
	}
}
