package harness

import (
	"fmt"
	"net"
	"runtime"
	"sort"
	"strconv"
	"strings"
	"syscall"
	"time"

	"github.com/b2broker/simplefix-go/session"
	fixgen "github.com/b2broker/simplefix-go/tests/fix44"

	"verif/simrt"
)

func init() {
	Register(&PropDef{ID: "C13", Run: c13, MaxSim: 6 * time.Hour, PanicIsViolation: true, SpinIsViolation: true})
}

var c13causes = []string{"peer-eof", "peer-reset", "read-error", "write-error", "short-write", "peer-stops-reading", "local-close", "handler-stop", "acceptor-listener-error", "undecodable-message"}
var c13points = []string{"before-logon", "inside-logon", "logged-idle", "mid-traffic", "mid-traffic", "during-logout"}

// stacks returns goid -> library function names (innermost first) of every goroutine.
func stacks() map[int64][]string {
	buf := make([]byte, 1<<20)
	n := runtime.Stack(buf, true)
	for n == len(buf) && len(buf) < 1<<28 {
		buf = make([]byte, 2*len(buf)) // never judge from a truncated dump
		n = runtime.Stack(buf, true)
	}
	out := map[int64][]string{}
	for _, g := range strings.Split(string(buf[:n]), "\n\n") {
		if !strings.HasPrefix(g, "goroutine ") {
			continue
		}
		f := strings.Fields(g)
		id, err := strconv.ParseInt(f[1], 10, 64)
		if err != nil {
			continue
		}
		out[id] = libFrames(g)
	}
	return out
}

// leaked lists library goroutines (and harness tasks stuck inside library calls) that still exist.
// base: tasks that existed before the connection was made (the acceptor's own goroutines, whatever
// they are called); they are ignored while the acceptor is still serving.
func leaked(w *World, base map[string]bool) []string {
	st := stacks()
	var out []string
	for _, t := range w.Sched.Alive() {
		fr := st[t.Goid]
		if len(fr) == 0 {
			continue // no library frame on its stack: not the library's goroutine, not stuck in the library
		}
		if base[t.ID] {
			continue
		}
		top := fr[0]
		if t.Harness {
			if t.Name == "driver" {
				continue
			}
			out = append(out, "caller-blocked-in:"+top)
			continue
		}
		root := fr[len(fr)-1]
		out = append(out, top+"<-"+root)
	}
	sort.Strings(out)
	return out
}

func c13(w *World) {
	role := []string{"acceptor", "initiator"}[w.W.Draw(2)]
	buf := []int{0, 1, 10}[w.W.Draw(3)]
	hb := 1 + w.W.Draw(2)
	wdl := time.Duration(1+w.W.Draw(3)) * time.Second
	ct := time.Second
	point := c13points[w.W.Draw(len(c13points))]
	cause := c13causes[w.F.Draw(len(c13causes))]
	if cause == "acceptor-listener-error" && role != "acceptor" {
		cause = "local-close"
	}
	if cause == "undecodable-message" && point == "inside-logon" {
		point = "before-logon" // glued to a half-delivered Logon the message would be part of that Logon
	}
	w.Cfg("role", role)
	w.Cfg("buf", buf)
	w.Cfg("hb", hb)
	w.Cfg("write_deadline", wdl.String())
	w.Cfg("point", point)
	w.Cfg("cause", cause)
	w.State(role + "/" + cause + "/" + point)
	tol := 1
	S := 3*time.Duration(hb+tol)*time.Second*11/10 + ct + wdl + time.Second

	sc := w.NewScript(ScriptCfg{Role: role, HandlerBuf: buf, ConnBuf: buf, HBMin: 1, HBMax: 60, HeartBtInt: hb, CloseTimeout: ct, WriteTimeout: wdl})
	var s *session.Session
	getS := func() *session.Session { s = sc.Sess(); return s }

	// ---- reach the injection point ----
	stop := false
	sendersDone, nSenders := 0, 0
	startTraffic := func() {
		nSenders = 1 + w.W.Draw(3)
		for t := 0; t < nSenders; t++ {
			t := t
			simrt.GoHarness("sender", func() {
				for i := 0; !stop && i < 400; i++ {
					_ = s.Send(fixgen.NewMarketDataRequest().SetMDReqID(fmt.Sprintf("t%d-%d", t, i)).SetSubscriptionRequestType("1").SetMarketDepth(1))
					if w.W.Chance(1, 3) {
						simrt.Sleep(time.Duration(w.W.Draw(30)) * time.Millisecond)
					}
				}
				sendersDone++
			})
		}
		simrt.GoHarness("peer-traffic", func() {
			for i := 0; !stop && i < 400 && !sc.P.C.IsClosed(); i++ {
				var raw []byte
				switch w.W.Draw(3) {
				case 0:
					raw = sc.Msg("1", F(TagTestReqID, "pt"+itoa(i)))
				case 1:
					raw = sc.Msg("D", F(11, "o"+itoa(i)), F(58, strings.Repeat("q", w.W.Draw(400))))
				default:
					raw = sc.Msg("0")
				}
				// often several messages in one segment, so that the reader holds complete read-ahead messages
				for k := w.W.Pick(3, 2, 1, 1); k > 0; k-- {
					raw = append(raw, sc.Msg([]string{"0", "1", "D"}[w.W.Draw(3)], F(TagTestReqID, "b"+itoa(i)+"-"+itoa(k)))...)
				}
				sc.P.SendShaped(raw, w.ShapeWith(w.W, w.W.Draw(5), 0))
				if w.W.Chance(1, 2) {
					simrt.Yield("harness.peer-traffic")
				} else {
					simrt.Sleep(time.Duration(w.W.Draw(25)) * time.Millisecond)
				}
			}
		})
	}
	partial := []byte(nil)
	switch point {
	case "before-logon":
		if getS() == nil {
			w.Inconclusive = "no-session"
			return
		}
	case "inside-logon":
		getS()
		m := sc.Msg("A", LogonFields(hb, "0", "", "")...)
		partial = m[:1+w.W.Draw(len(m)-1)]
		sc.P.Send(partial) // the Logon is cut short when the cause fires
		simrt.Yield("harness.partial")
	default:
		sc.DoLogon(hb)
		if getS() == nil || !s.IsLogged() {
			w.Inconclusive = "logon-failed"
			return
		}
		switch point {
		case "mid-traffic":
			startTraffic()
			w.Probe("traffic_in_flight")
		case "during-logout":
			_ = s.Logout()
			if w.W.Chance(1, 2) {
				sc.P.Send(sc.Msg("5"))
			}
		}
	}
	if s == nil {
		w.Inconclusive = "no-session"
		return
	}
	// a drawn position in the interleaving
	for i, k := 0, w.F.Draw(80); i < k; i++ {
		simrt.Yield("harness.position")
	}
	if w.F.Chance(1, 3) {
		simrt.Sleep(time.Duration(w.F.Draw(1500)) * time.Millisecond)
	}
	if point == "mid-traffic" && cause != "undecodable-message" && w.F.Chance(1, 2) {
		// a message cut in the middle at the moment of the cause
		m := sc.Msg("D", F(11, "cut"), F(58, strings.Repeat("c", 50)))
		sc.P.Send(m[:1+w.F.Draw(len(m)-1)])
		simrt.Yield("harness.partial")
		w.Probe("cause_inside_message")
	}

	// full buffers at the moment of the cause: the peer stops reading shortly before, so that the
	// writer sits in a blocked Write and the outgoing channel fills up behind it
	congested := false
	if point == "mid-traffic" && cause != "peer-stops-reading" && w.F.Chance(1, 3) {
		congested = true
		sc.P.C.SetInCap(w.F.Draw(128))
		sc.P.C.Stall(true)
		simrt.Sleep(time.Duration(20+w.F.Draw(300)) * time.Millisecond)
		w.Probe("congested_at_cause")
	}
	_ = congested

	// ---- the cause ----
	localInitiated := false
	tCause := time.Now()
	// from here on the run has a fresh step budget, far above anything the remaining workload can use
	// (at most 3 x 400 failing sends and the timers' ticks during S): exhausting it means something spins
	w.SpinKey = role + "/" + cause
	w.Sched.FreshStepBudget(400000)
	w.Sched.ChargeSpinning(2000, 50*time.Millisecond) // a bounded busy loop (until a deadline fires) must be able to end
	switch cause {
	case "peer-eof":
		sc.P.C.CloseNow()
	case "peer-reset":
		sc.P.C.Abort()
	case "read-error":
		sc.P.C.InjectReadErr(&net.OpError{Op: "read", Net: "sim", Err: syscall.ETIMEDOUT})
		w.Fault("read_error")
	case "write-error":
		sc.LibEnd.Plan.WriteErrAt = 1 // the next Write fails
	case "short-write":
		sc.LibEnd.Plan.WriteErrAt, sc.LibEnd.Plan.WriteShort = 1, true
	case "peer-stops-reading":
		sc.P.C.SetInCap(w.F.Draw(256))
		sc.P.C.Stall(true)
		w.Fault("peer_stops_reading")
	case "local-close":
		localInitiated = true
		if role == "initiator" {
			sc.Ini.I.Close()
		} else {
			sc.Acc.A.Close()
		}
		w.Fault("local_close")
	case "handler-stop":
		localInitiated = true
		s.Router.Stop()
		w.Fault("handler_stop")
	case "acceptor-listener-error":
		localInitiated = true
		sc.Acc.L.FailAccept(&net.OpError{Op: "accept", Net: "sim", Err: syscall.EMFILE})
	case "undecodable-message":
		// a correctly framed message without a MsgType ends the handler loop with an error: one more
		// way a connection can end (the statement's list does not name it, so no notification is demanded)
		sc.P.Send(Build([]Field{F(TagSenderCompID, sc.PeerID), F(TagTargetCompID, sc.LibID), FI(TagMsgSeqNum, sc.NextSeq()), F(58, "no type")}, WireOpts{}))
		w.Fault("undecodable_message")
	}
	w.Logf("cause", "%s at %s (%s)", cause, point, role)
	// write-path causes need the library to write: traffic or heartbeats do that within N
	simrt.Sleep(S)
	stop = true
	simrt.Settle()
	simrt.Sleep(100 * time.Millisecond)
	simrt.Settle()
	_ = tCause

	key := role + "/" + cause
	fired := true
	switch cause {
	case "write-error", "short-write":
		fired = w.Faults["write_error"]+w.Faults["short_write"] > 0
	case "peer-stops-reading":
		// a logged-on session writes at least a Heartbeat every interval: the write deadline must
		// then end the connection; before the logon completes the library may have nothing to write
		fired = w.Faults["write_deadline"] > 0 || point == "logged-idle" || point == "mid-traffic"
	}
	if !fired {
		// the library never wrote after the fault was armed (e.g. before logon): nothing ended
		w.Inconclusive = ""
		w.Probe("cause_did_not_fire")
		sc.P.C.Stall(false)
		sc.Teardown()
		return
	}
	// (2) the socket is closed
	if !sc.LibEnd.IsClosed() {
		w.Violate("socket-not-closed", key, fmt.Sprintf("%v after %s at %s the library has not closed its socket", S, cause, point))
	}
	// (1) the serving call returned
	if role == "initiator" && !sc.Ini.Served {
		w.Violate("serve-not-returned", key, fmt.Sprintf("Initiator.Serve has not returned %v after %s at %s", S, cause, point))
	}
	if role == "acceptor" && (cause == "local-close" || cause == "acceptor-listener-error") && !sc.Acc.Served {
		w.Violate("serve-not-returned", key, fmt.Sprintf("Acceptor.ListenAndServe has not returned %v after %s", S, cause))
	}
	// (3) the side that did not initiate the termination is notified
	if !localInitiated && cause != "undecodable-message" {
		n := 0
		if role == "acceptor" {
			a := sc.Acc.Sess[0]
			n = a.HDisc + a.Stopped + a.Disconnect
		} else {
			n = sc.Ini.HDisc + sc.Ini.Stopped + sc.Ini.Disconnect
		}
		if n == 0 {
			w.Violate("no-notification", key, fmt.Sprintf("the peer ended the connection (%s at %s) but the application got neither OnDisconnect nor OnStopped", cause, point))
		}
	} else if !congested && !sc.P.EOF && !sc.P.C.IsClosed() {
		w.Violate("peer-not-notified", key, fmt.Sprintf("local termination (%s) but the peer never observed the end of the stream", cause))
	}
	// (4) later sends return
	returned := 0
	simrt.GoHarness("late-sender", func() {
		_ = s.Send(fixgen.NewHeartbeat())
		returned++
		_ = s.Router.Send(fixgen.NewHeartbeat())
		returned++
		_ = s.Router.SendRaw([]byte("8=FIX.4.4\x019=5\x0135=0\x0110=000\x01"))
		returned++
	})
	simrt.Sleep(S)
	simrt.Settle()
	if returned != 3 {
		w.Violate("send-after-end-blocks", key, fmt.Sprintf("a send call issued after the connection ended (%s) is still blocked %v later (%d of 3 calls returned)", cause, S, returned))
	}
	if nSenders > 0 && sendersDone != nSenders {
		w.Violate("sender-blocked", key, fmt.Sprintf("%d of %d application senders that were in flight at the moment of %s are still blocked", nSenders-sendersDone, nSenders, cause))
	}
	// (5) no library goroutine remains
	var base map[string]bool
	if role == "acceptor" && !sc.Acc.Served {
		base = sc.BaseTasks
	}
	if l := leaked(w, base); len(l) > 0 {
		w.Violate("goroutine-leak", key+"|"+strings.Join(dedup(l), ","), fmt.Sprintf("%v after %s at %s these library goroutines still exist: %v", 2*S, cause, point, l))
	}
	// finally the acceptor itself
	if role == "acceptor" && !sc.Acc.Served {
		sc.Acc.A.Close()
		simrt.Sleep(time.Second)
		simrt.Settle()
		if !sc.Acc.Served {
			w.Violate("serve-not-returned", role+"/acceptor-close", "Acceptor.ListenAndServe has not returned 1s after Acceptor.Close")
		}
		if l := leaked(w, nil); len(l) > 0 {
			w.Violate("goroutine-leak", role+"/acceptor-close|"+strings.Join(dedup(l), ","), fmt.Sprintf("after Acceptor.Close these library goroutines still exist: %v", l))
		}
	}
	if !sc.P.C.IsClosed() {
		sc.P.C.CloseNow()
	}
}

func dedup(l []string) []string {
	var out []string
	for i, s := range l {
		if i == 0 || s != l[i-1] {
			out = append(out, s)
		}
	}
	return out
}
