package harness

import (
	"bytes"
	"errors"
	"fmt"
	"time"

	"github.com/b2broker/simplefix-go/session"
	fixgen "github.com/b2broker/simplefix-go/tests/fix44"

	"verif/simrt"
)

func init() {
	Register(&PropDef{ID: "C07", Run: c07, MaxSim: 6 * time.Hour})
}

// c07: adversarial histories without any acceptable Logon; a shared store that
// already holds another session's messages; long idle gaps so that a wrongly
// started timer would fire. Invariant: only Logon / Logout / Reject leave, and
// nothing that another session sent is ever retransmitted.
func c07(w *World) {
	role := []string{"acceptor", "acceptor", "initiator"}[w.W.Draw(3)]
	limits := [][2]int{{1, 60}, {5, 30}, {10, 10}}[w.W.Draw(3)]
	buf := []int{0, 1, 10}[w.W.Draw(3)]
	storeMode := w.W.Draw(3) // 0 empty store, 1 earlier session (ended), 2 parallel session (alive)
	if role == "initiator" && storeMode == 2 {
		storeMode = 1
	}
	w.Cfg("role", role)
	w.Cfg("limits", limits)
	w.Cfg("buf", buf)
	w.Cfg("store", []string{"empty", "earlier-session", "parallel-session"}[storeMode])
	approve := func(ls *session.LogonSettings) error {
		if ls.Password == "secret" {
			return nil
		}
		return errors.New("bad credentials")
	}
	store := NewStore(w)
	var other [][]byte // everything sent to the authenticated (other) session
	var cl *Client
	var teardown func()
	var auth *Client
	var sess func() *session.Session
	closeTimeout := []time.Duration{time.Second, time.Hour}[w.W.Draw(2)]

	if role == "acceptor" {
		acc := w.StartAcceptor(AccCfg{HandlerBuf: buf, WriteTimeout: time.Minute, HBMin: limits[0], HBMax: limits[1], Approve: approve, Store: store, CloseTimeout: closeTimeout})
		if storeMode != 0 {
			auth = w.NewClient(acc, "auth", "GOOD", "LIB")
			r := auth.Step(auth.Msg("A", LogonFields(limits[0], "0", "carol", "secret")...))
			if count(r, "A") != 1 {
				w.Inconclusive = "auth-logon-failed"
				return
			}
			n := 1 + w.W.Draw(4)
			for i := 0; i < n; i++ {
				auth.Step(auth.Msg("1", F(TagTestReqID, "auth"+itoa(i))))
			}
			simrt.Sleep(time.Duration(limits[0]*(1+w.W.Draw(3))) * time.Second)
			auth.Settle()
			if storeMode == 1 {
				auth.P.C.CloseNow()
				simrt.Sleep(10 * time.Millisecond)
				simrt.Settle()
			}
			w.Probe("store_prepopulated")
		}
		cl = w.NewClient(acc, "unauth", "EVIL", "LIB")
		if w.W.Chance(1, 3) && auth != nil {
			cl.PeerID = "GOOD" // impersonate the identifiers of the authenticated peer
		}
		sess = func() *session.Session {
			if ss := acc.Sessions(); len(ss) > 0 {
				return ss[len(ss)-1].S
			}
			return nil
		}
		teardown = func() {
			cl.P.C.CloseNow()
			if auth != nil && !auth.P.C.IsClosed() {
				auth.P.C.CloseNow()
			}
			acc.A.Close()
		}
	} else {
		if storeMode != 0 {
			// an earlier initiator session over the same store, properly logged on
			a, b := w.Net.Pipe("earlier", -1, -1)
			prev := &Client{w: w, P: NewPeer(w, b, "earlier"), PeerID: "Server", LibID: "Client"}
			ini := w.StartInitiator(InitCfg{HandlerBuf: buf, ConnBuf: buf, WriteDeadline: time.Minute, HeartBtInt: 1 + w.W.Draw(3), Store: store}, a)
			prev.Settle()
			prev.Step(prev.Msg("A", LogonFields(1, "0", "", "")...))
			for i := 0; i < 1+w.W.Draw(3); i++ {
				prev.Step(prev.Msg("1", F(TagTestReqID, "prev"+itoa(i))))
			}
			simrt.Sleep(time.Duration(1+w.W.Draw(3)) * time.Second)
			prev.Settle()
			ini.I.Close()
			prev.P.C.CloseNow()
			simrt.Sleep(10 * time.Millisecond)
			simrt.Settle()
			auth = prev
			w.Probe("store_prepopulated")
		}
		a, b := w.Net.Pipe("unauth", -1, -1)
		cl = &Client{w: w, P: NewPeer(w, b, "unauth"), PeerID: "Server", LibID: "Client"}
		ini := w.StartInitiator(InitCfg{HandlerBuf: buf, ConnBuf: buf, WriteDeadline: time.Minute, HeartBtInt: 1 + w.W.Draw(5), Store: store, CloseTimeout: closeTimeout}, a)
		cl.Settle()
		sess = func() *session.Session { return ini.S }
		teardown = func() { ini.I.Close(); cl.P.C.CloseNow() }
	}
	if auth != nil {
		for _, m := range auth.P.Msgs() {
			other = append(other, m.Raw)
		}
	}

	steps := 1 + w.W.Draw(w.Deep(16))
	last := "connect"
	check := func() {
		if auth != nil {
			other = other[:0]
			for _, m := range auth.P.Msgs() {
				other = append(other, m.Raw)
			}
		}
		for _, m := range cl.P.Take() {
			if l, s := FrameOK(m.Raw); !l || !s {
				w.Inconclusive = "framing-anomaly"
				return
			}
			for _, o := range other {
				if bytes.Equal(o, m.Raw) {
					w.Violate("pre-logon-retransmission", "after:"+last, fmt.Sprintf("a message another session sent was retransmitted to the unauthenticated peer after %s: %s", last, short(m.Raw)))
				}
			}
			if m.Type != "A" && m.Type != "5" && m.Type != "3" {
				w.Violate("pre-logon-message-type", m.Type+"/after:"+last, fmt.Sprintf("message of type %q sent before any successful logon, after %s: %s", m.Type, last, short(m.Raw)))
			}
		}
	}
	check()
	for i := 0; i < steps && len(w.Viol) == 0 && w.Inconclusive == "" && !cl.P.EOF; i++ {
		var raw []byte
		switch w.W.Pick(6, 3, 2, 2, 4, 2, 2, 2, 4, 2) {
		case 9:
			// the application ends or logs out the session that never logged on; whatever the peer sends
			// afterwards is still sent by a peer that has not logged on
			if ss := sess(); ss != nil {
				if w.W.Chance(1, 2) {
					last = "local-stop"
					simrt.GoHarness("Stop", func() { _ = ss.Stop() })
				} else {
					last = "local-logout"
					simrt.GoHarness("Logout", func() { _ = ss.Logout() })
				}
				simrt.Settle()
				w.Probe("local_ending_before_logon")
			}
			cl.Settle()
			check()
			continue
		case 0:
			last = "resendrequest"
			b, e := w.W.Draw(6), w.W.Draw(8)
			if w.W.Chance(1, 3) {
				e = 0
			}
			raw = cl.Msg("2", FI(TagBeginSeqNo, b), FI(TagEndSeqNo, e))
		case 1:
			last = "testrequest"
			raw = cl.Msg("1", F(TagTestReqID, "x"+itoa(i)))
		case 2:
			last = "heartbeat"
			if w.W.Chance(1, 2) {
				raw = cl.Msg("0", F(TagTestReqID, []string{"1", "2", "x"}[w.W.Draw(3)])) // looks like an answer to a TestRequest nobody sent
			} else {
				raw = cl.Msg("0")
			}
		case 3:
			last = "logout"
			raw = cl.Msg("5")
		case 4:
			last = "refused-logon"
			switch w.W.Draw(4) {
			case 0:
				raw = cl.Msg("A", LogonFields(limits[1]+1, "0", "eve", "secret")...)
			case 1:
				raw = cl.Msg("A", LogonFields(limits[0], "5", "eve", "secret")...)
			case 2:
				raw = cl.Msg("A", LogonFields(limits[0], "0", "eve", "guess")...)
			default:
				raw = cl.Msg("A", LogonFields(0, "0", "eve", "secret")...)
			}
			if role == "initiator" {
				// any parseable Logon would complete the initiator's logon: damage it instead
				raw = Build(AdminMsg("A", cl.NextSeq(), cl.PeerID, cl.LibID, LogonFields(1, "0", "", "")...), WireOpts{BadSum: true})
				last = "damaged-logon"
			}
		case 5:
			last = "damaged-logon"
			switch w.W.Draw(4) {
			case 0:
				// a Logon that is intact in every other respect but carries no sequence number (or one that is
				// not a number) is a damaged message, not an acceptable Logon: nothing may start because of it
				raw = Build(dropField(AdminMsg("A", cl.NextSeq(), cl.PeerID, cl.LibID, LogonFields(limits[0], "0", "carol", "secret")...), TagMsgSeqNum), WireOpts{})
				w.Probe("logon_without_seqnum")
			case 1:
				fields := AdminMsg("A", cl.NextSeq(), cl.PeerID, cl.LibID, LogonFields(limits[0], "0", "carol", "secret")...)
				txt, _ := NonNumeric(w.W, 1)
				setField(fields, TagMsgSeqNum, txt)
				raw = Build(fields, WireOpts{})
				w.Probe("logon_nonnumeric_seqnum")
			default:
				raw = Build(AdminMsg("A", cl.NextSeq(), cl.PeerID, cl.LibID, LogonFields(limits[0], "0", "eve", "secret")...), WireOpts{BadSum: w.W.Chance(1, 2), BadLen: true})
			}
		case 6:
			last = "application"
			raw = cl.Msg(fixgen.MsgTypeMarketDataRequest, F(262, "req"+itoa(i)), F(263, "1"), F(264, "0"))
		case 7:
			last = "unknown-type"
			raw = cl.Msg("U9", F(TagText, "?"))
		case 8:
			last = "idle"
		}
		if raw != nil {
			cl.P.Send(raw)
			cl.Settle()
		} else {
			max := 10 * limits[1]
			if role == "initiator" {
				max = 60
			}
			simrt.Sleep(time.Duration(1+w.W.Draw(max)) * time.Second)
			cl.Settle()
			w.Probe("long_idle")
		}
		check()
		w.Logf("step", "%d %s", i, last)
	}
	teardown()
	simrt.Sleep(50 * time.Millisecond)
}
