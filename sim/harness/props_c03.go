package harness

import (
	"bytes"
	"fmt"
	"time"

	"github.com/b2broker/simplefix-go/fix/encoding"
	"github.com/b2broker/simplefix-go/session/messages"
	fixgen "github.com/b2broker/simplefix-go/tests/fix44"

	simplefixgo "github.com/b2broker/simplefix-go"

	"verif/simrt"
)

func init() {
	Register(&PropDef{ID: "C03", Run: c03, MaxSim: time.Hour})
	Register(&PropDef{ID: "C03S", Run: c03stream, MaxSim: time.Hour})
}

// template returns a fresh empty message for a MsgType of the generated package.
func template(typ string) messages.Builder {
	switch typ {
	case "A":
		return fixgen.NewLogon()
	case "0":
		return fixgen.NewHeartbeat()
	case "1":
		return fixgen.NewTestRequest()
	case "2":
		return fixgen.NewResendRequest()
	case "3":
		return fixgen.NewReject()
	case "4":
		return fixgen.NewSequenceReset()
	case "5":
		return fixgen.NewLogout()
	case "V":
		return fixgen.NewMarketDataRequest()
	case "W":
		return fixgen.NewMarketDataSnapshotFullRefresh()
	case "X":
		return fixgen.NewMarketDataIncrementalRefresh()
	case "Y":
		return fixgen.NewMarketDataRequestReject()
	}
	return nil
}

var allTypes = []string{"A", "0", "1", "2", "3", "4", "5", "V", "W", "X", "Y"}

func word(t *Tape) string {
	return []string{"BTC/USD", "ETH/GBP", "x", "EUR/USD", "a=b", "10=1", "id-" + itoa(t.Draw(1000)), "Z9", "long-" + itoa(t.Draw(1<<20)),
		"caf\xe9", "\xc3\xa9t\xc3\xa9", "\xff\xfe\x80", "z\xe2\x82\xacuro"}[t.Draw(13)] // incl. Latin-1 and UTF-8 bytes
}

// baseMessage serialises a valid message of a drawn type with the library's own builders.
func baseMessage(t *Tape) (typ string, raw []byte) {
	type hdr interface {
		HeaderBuilder() messages.HeaderBuilder
		ToBytes() ([]byte, error)
	}
	var m hdr
	switch t.Draw(10) {
	case 0:
		typ = "A"
		l := fixgen.NewLogon().SetEncryptMethod("0").SetHeartBtInt(1 + t.Draw(60))
		if t.Chance(1, 2) {
			l.SetUsername(word(t)).SetPassword(word(t))
		}
		m = l
	case 1:
		typ = "0"
		h := fixgen.NewHeartbeat()
		if t.Chance(1, 2) {
			h.SetTestReqID(word(t))
		}
		m = h
	case 2:
		typ = "1"
		m = fixgen.NewTestRequest().SetTestReqID(word(t))
	case 3:
		typ = "2"
		m = fixgen.NewResendRequest().SetBeginSeqNo(1 + t.Draw(50)).SetEndSeqNo(t.Draw(80))
	case 4:
		typ = "3"
		r := fixgen.NewReject().SetRefSeqNum(1 + t.Draw(100))
		if t.Chance(1, 2) {
			r.SetRefTagID(t.Draw(400)).SetSessionRejectReason(itoa(t.Draw(12))).SetText(word(t))
		}
		m = r
	case 5:
		typ = "5"
		m = fixgen.NewLogout()
	case 6:
		typ = "4"
		m = fixgen.NewSequenceReset().SetNewSeqNo(1 + t.Draw(1000)).SetGapFillFlag(t.Chance(1, 2))
	case 7, 8:
		typ = "V"
		v := fixgen.NewMarketDataRequest().SetMDReqID(word(t)).SetSubscriptionRequestType("1").SetMarketDepth(t.Draw(5))
		et := fixgen.NewMDEntryTypesGrp()
		for i := 0; i < 1+t.Draw(3); i++ {
			et.AddEntry(fixgen.NewMDEntryTypesEntry().SetMDEntryType(itoa(i)))
		}
		v.SetMDEntryTypesGrp(et)
		rs := fixgen.NewRelatedSymGrp()
		for i := 0; i < 1+t.Draw(3); i++ {
			rs.AddEntry(fixgen.NewRelatedSymEntry().SetInstrument(fixgen.NewInstrument().SetSymbol(word(t) + itoa(i))))
		}
		v.SetRelatedSymGrp(rs)
		m = v
	default:
		typ = "W"
		sn := fixgen.NewMarketDataSnapshotFullRefresh().SetMDReqID(word(t)).SetInstrument(fixgen.NewInstrument().SetSymbol(word(t)))
		g := fixgen.NewMDEntriesGrp()
		for i := 0; i < 1+t.Draw(3); i++ {
			g.AddEntry(fixgen.NewMDEntriesEntry().SetMDEntryType(itoa(i % 3)).SetMDEntryPx(float64(1+t.Draw(100000)) / 100).SetMDEntrySize(float64(1 + t.Draw(50))))
		}
		sn.SetMDEntriesGrp(g)
		m = sn
	}
	m.HeaderBuilder().SetFieldMsgSeqNum(1 + t.Draw(5000)).SetFieldSenderCompID("S" + itoa(t.Draw(10))).SetFieldTargetCompID("T" + itoa(t.Draw(10))).
		SetFieldSendingTime(time.Now().UTC().Format("20060102-15:04:05.000"))
	raw, err := m.ToBytes()
	if err != nil {
		return typ, nil
	}
	return typ, append([]byte(nil), raw...)
}

// accepts reports which parsers accept data as a message of type typ.
func accepts(typ string, data []byte) (strict, lax bool, pan string) {
	defer func() {
		if r := recover(); r != nil {
			pan = fmt.Sprint(r)
		}
	}()
	strict = encoding.Unmarshal(template(typ), data) == nil
	lax = encoding.DefaultUnmarshaller{Strict: false, Validator: encoding.DefaultValidator{}}.Unmarshal(template(typ), data) == nil
	return
}

func fieldAt(msg []byte, pos int) string {
	start := bytes.LastIndexByte(msg[:pos], SOH) + 1
	eq := bytes.IndexByte(msg[start:], '=')
	if eq < 0 {
		return "?"
	}
	tag := string(msg[start : start+eq])
	if pos < start+eq {
		return "tag-of-" + tag
	}
	if pos == start+eq {
		return "equals-of-" + tag
	}
	return "value-of-" + tag
}

// c03: the complete single-fault neighbourhood of one valid message at the decode
// seam: every substitution, every deletion, every interior insertion, every proper prefix.
func c03(w *World) {
	typ, raw := baseMessage(w.W)
	if raw == nil {
		w.Inconclusive = "serialise-failed"
		return
	}
	if l, s := FrameOK(raw); !l || !s {
		// the serialiser produced framing fields that do not agree with the bytes (by the independent
		// codec). That alone is C01's subject; but a parser that ACCEPTS such bytes accepts a message
		// whose BodyLength / CheckSum do not agree with its content
		if st, lx, _ := accepts(typ, raw); st || lx {
			w.Violate("inconsistent-framing-accepted", fmt.Sprintf("length-ok=%v/checksum-ok=%v", l, s), fmt.Sprintf("the parser accepts a %s message whose BodyLength/CheckSum do not match its bytes (recomputed independently): %s", typ, Pretty(raw)))
			return
		}
		w.Inconclusive = "framing-anomaly"
		return
	}
	w.Cfg("type", typ)
	w.Cfg("length", len(raw))
	w.Cfg("message", Pretty(raw))
	if st, lx, p := accepts(typ, raw); !st || !lx || p != "" {
		w.Inconclusive = "base-message-rejected" // C02's subject, not C03's
		return
	}
	w.State(typ)
	variants := 0
	report := func(kind string, pos int, b int, v []byte, st, lx bool, pan string) {
		if pan != "" {
			return // crashes are C11's subject
		}
		where := fieldAt(raw, pos)
		mode := "strict"
		if !st {
			mode = "non-strict"
		} else if lx {
			mode = "both"
		}
		key := fmt.Sprintf("%s/%s/byte=%#02x", kind, where, b)
		if kind == "prefix" || kind == "delete" {
			key = kind + "/" + where
		}
		w.Violate("damaged-message-accepted", key, fmt.Sprintf("%s of byte %#02x at offset %d (%s) of a valid %s message is accepted (%s mode):\n valid   %s\n damaged %s", kind, b, pos, where, typ, mode, Pretty(raw), Pretty(v)))
	}
	n := len(raw)
	buf := make([]byte, 0, n+1)
	for pos := 0; pos < n; pos++ {
		for b := 0; b < 256; b++ {
			if byte(b) == raw[pos] {
				continue
			}
			buf = append(buf[:0], raw...)
			buf[pos] = byte(b)
			variants++
			if st, lx, p := accepts(typ, buf); st || lx {
				report("substitute", pos, b, buf, st, lx, p)
			}
		}
		// deletion
		buf = append(append(buf[:0], raw[:pos]...), raw[pos+1:]...)
		variants++
		if st, lx, p := accepts(typ, buf); st || lx {
			report("delete", pos, int(raw[pos]), buf, st, lx, p)
		}
		// interior insertion before pos
		if pos > 0 {
			for b := 0; b < 256; b++ {
				buf = append(append(append(buf[:0], raw[:pos]...), byte(b)), raw[pos:]...)
				variants++
				if st, lx, p := accepts(typ, buf); st || lx {
					report("insert", pos, b, buf, st, lx, p)
				}
			}
		}
		// proper prefix
		if pos > 0 {
			variants++
			if st, lx, p := accepts(typ, raw[:pos]); st || lx {
				report("prefix", pos, 0, raw[:pos], st, lx, p)
			}
		}
		if pos%16 == 0 {
			simrt.Yield("harness.c03") // stay preemptible for the wall-clock watchdog accounting
		}
	}
	w.Cfg("variants", variants)
	w.cmu.Lock()
	w.Probes["variants"] += variants
	w.Probes["base_messages"]++
	w.Nontrivial = true
	w.cmu.Unlock()
}

// c03stream: the same fault model injected into the byte stream of a live, logged-on
// session. Oracle "accepted => authentic": whatever the application's decoders accept,
// and whatever the session acts on, must be byte-identical to something really sent.
func c03stream(w *World) {
	role := []string{"acceptor", "initiator"}[w.W.Draw(2)]
	buf := []int{0, 1, 10}[w.W.Draw(3)]
	w.Cfg("role", role)
	var sc *Script
	var accepted [][]byte
	decode := func(msg []byte) bool {
		typ := MsgType(msg)
		if template(typ) == nil {
			typ = "0"
		}
		if st, lx, _ := accepts(typ, msg); st || lx {
			accepted = append(accepted, append([]byte(nil), msg...))
		}
		return true
	}
	sc = w.NewScript(ScriptCfg{Role: role, HandlerBuf: buf, ConnBuf: buf, HBMin: 1, HBMax: 60, HeartBtInt: 30, CloseTimeout: time.Second,
		OnAccSession: func(a *AccSession) { a.H.HandleIncoming(simplefixgo.AllMsgTypes, decode) },
		BeforeRun:    func(i *InitSide) { i.H.HandleIncoming(simplefixgo.AllMsgTypes, decode) }})
	sc.DoLogon(30)
	s := sc.Sess()
	if s == nil || !s.IsLogged() {
		w.Inconclusive = "logon-failed"
		return
	}
	sc.P.Take()
	accepted = nil
	// authentic traffic
	var sent [][]byte
	ids := map[string]bool{}
	var stream []byte
	k := 1 + w.W.Draw(5)
	for i := 0; i < k; i++ {
		var raw []byte
		switch w.W.Draw(4) {
		case 0:
			id := "auth" + itoa(i)
			ids[id] = true
			raw = sc.Msg("1", F(TagTestReqID, id))
		case 1:
			raw = sc.Msg("0")
		case 2:
			raw = sc.Msg("V", F(262, word(w.W)), F(263, "1"), F(264, "0"), F(267, "1"), F(269, "0"), F(146, "1"), F(55, word(w.W)))
		default:
			raw = sc.Msg("2", FI(TagBeginSeqNo, 1), FI(TagEndSeqNo, 1))
		}
		sent = append(sent, raw)
		stream = append(stream, raw...)
	}
	// one transport fault at a drawn stream offset
	pos := w.F.Draw(len(stream))
	dam := append([]byte(nil), stream...)
	kind := ""
	where := fieldAt(stream, pos) // which field of which message the damage lands in
	dmgByte := -1
	switch w.F.Pick(4, 3, 3, 1) {
	case 0:
		kind = "substitute"
		nb := byte(w.F.Draw(256))
		if nb == dam[pos] {
			nb ^= 0x01
		}
		dam[pos] = nb
		dmgByte = int(nb)
	case 1:
		kind = "insert"
		nb := byte(w.F.Draw(256))
		if w.F.Chance(1, 4) {
			nb = 0 // the one value that leaves a byte sum unchanged
		}
		dmgByte = int(nb)
		dam = append(dam[:pos], append([]byte{nb}, dam[pos:]...)...)
	case 2:
		kind = "delete"
		dam = append(dam[:pos], dam[pos+1:]...)
	default:
		kind = "cut"
		dam = dam[:pos]
	}
	w.Fault("stream_" + kind)
	w.Cfg("fault", kind)
	sc.P.SendShaped(dam, w.ShapeWith(w.W, w.W.Draw(5), 0))
	sc.Settle()
	replies := sc.P.Take()
	authentic := func(m []byte) bool {
		for _, a := range sent {
			if bytes.Equal(a, m) {
				return true
			}
		}
		return false
	}
	for _, a := range accepted {
		if !authentic(a) {
			key := "stream/" + kind + "/" + where
			if dmgByte >= 0 {
				key += fmt.Sprintf("/byte=%#02x", dmgByte)
			}
			w.Violate("damaged-message-accepted", key, fmt.Sprintf("after a stream %s at offset %d the application's decoder accepted a message nobody sent: %s", kind, pos, short(a)))
		}
	}
	for _, m := range replies {
		if id, has := Get(m.Raw, TagTestReqID); m.Type == "0" && has && !ids[id] {
			w.Violate("damaged-message-acted-on", "echo/"+kind, fmt.Sprintf("the session echoed TestReqID %q, which no authentic TestRequest carried", id))
		}
	}
	if len(accepted) > 0 {
		w.Probe("authentic_accepted")
	}
	if count(replies, "3") > 0 {
		w.Probe("damage_rejected_by_session")
	}
	if !sc.P.EOF {
		sc.Teardown()
	}
}
