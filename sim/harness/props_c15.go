package harness

import (
	"fmt"
	"time"

	"github.com/b2broker/simplefix-go/utils"

	"verif/simrt"
)

func init() {
	Register(&PropDef{ID: "C15", Run: c15, MaxSim: 3 * time.Hour})
}

// c15: endings of a logged-on session: peer Logout, local Logout, local Stop with the
// peer's answer arriving at a chosen time relative to CloseTimeout (or never).
func c15(w *World) {
	role := []string{"acceptor", "initiator"}[w.W.Draw(2)]
	buf := []int{0, 1, 10}[w.W.Draw(3)]
	hb := []int{5, 30, 60}[w.W.Draw(3)]
	ct := []time.Duration{0, time.Millisecond, time.Second, 30 * time.Second}[w.W.Draw(4)]
	ending := []string{"peer-logout", "local-logout", "stop", "stop", "stop"}[w.W.Draw(5)]
	w.Cfg("role", role)
	w.Cfg("buf", buf)
	w.Cfg("hb", hb)
	w.Cfg("close_timeout", ct.String())
	w.Cfg("ending", ending)
	sc := w.NewScript(ScriptCfg{Role: role, HandlerBuf: buf, ConnBuf: buf, HBMin: 1, HBMax: 60, HeartBtInt: hb, CloseTimeout: ct})
	sc.DoLogon(hb)
	s := sc.Sess()
	if s == nil || !s.IsLogged() {
		w.Inconclusive = "logon-failed"
		return
	}
	// some ordinary traffic first
	for i := 0; i < w.W.Draw(4); i++ {
		sc.Step(sc.Msg("1", F(TagTestReqID, "t"+itoa(i))))
	}
	sc.P.Take()
	// observer of the session context
	var doneAt time.Time
	doneSeen := false
	simrt.GoHarness("ctx-watch", func() {
		simrt.Yield("watch")
		<-s.Context().Done()
		doneAt = time.Now()
		doneSeen = true
		simrt.Yield("watch'")
	})
	falseHandler := w.W.Chance(1, 3)
	if falseHandler {
		// an application handler that returns false (it is the last of its chain: harmless)
		s.OnChangeState(utils.EventLogon, func() bool { return false })
		s.OnChangeState(utils.EventRequest, func() bool { return false })
		w.Probe("event_handler_returning_false")
	}
	// local calls run on a task of their own: they must come back
	callReturned := false
	call := func(name string, f func() error) bool {
		callReturned = false
		simrt.GoHarness(name, func() { _ = f(); callReturned = true })
		simrt.Settle()
		if !callReturned {
			w.Violate("local-call-blocked", name, fmt.Sprintf("%s() has not returned although nothing is left to run at this instant", name))
		}
		return callReturned
	}
	evBefore := sc.LogoutEvents()
	if w.W.Chance(1, 3) {
		// stay silent until the library probes us: the ending then begins while its TestRequest is
		// outstanding (the session is still logged on although IsLogged() reads false in that window)
		tol := hb / 20
		if tol < 1 {
			tol = 1
		}
		T := time.Duration(hb+tol) * time.Second
		simrt.Sleep(T + T/10 + time.Millisecond)
		sc.Settle()
		if count(sc.P.Take(), "1") > 0 {
			w.Probe("ending_while_probe_outstanding")
			w.Cfg("probe_outstanding", true)
		}
	}

	// a peer that answers a Logout the moment it sees it (a task of its own: the answer can be
	// dispatched while the caller of Logout()/Stop() has not returned yet)
	reactive := ending != "peer-logout" && w.W.Chance(1, 3)
	reactiveOff := false
	var answeredAt time.Time
	if reactive {
		w.Cfg("reactive_peer", true)
		base := len(sc.P.Msgs())
		simrt.GoHarness("reactive-peer", func() {
			simrt.WaitFor("harness.reactive", func() bool { return reactiveOff || sc.P.EOF || count(sc.P.Msgs()[base:], "5") > 0 })
			if reactiveOff || sc.P.EOF {
				return
			}
			sc.P.Send(sc.Msg("5"))
			answeredAt = time.Now()
		})
		defer func() { reactiveOff = true }()
	}
	if reactive {
		name, f := "Logout", s.Logout
		if ending == "stop" {
			name, f = "Stop", s.Stop
		}
		t0 := time.Now()
		if !call(name, f) {
			return
		}
		sc.Settle()
		r := dropTimer(sc.P.Take())
		if !sc.checkFraming(r) {
			return
		}
		if answeredAt.IsZero() {
			w.Violate("local-logout-sent", "count=0", fmt.Sprintf("%s() put %q on the wire, want exactly one Logout", name, typesOf(r)))
		} else {
			if n := count(r, "5"); n != 1 {
				w.Violate("second-logout", role+"/reactive-"+ending, fmt.Sprintf("%s() answered at once by the peer's Logout: %q on the wire, want exactly one Logout", name, typesOf(r)))
			}
			// Stop() with a zero close timeout: the deadline and the immediate answer tie, the session may
			// have ended before the answer is dispatched; only "no second Logout" applies then
			tie := ending == "stop" && ct == 0
			if !tie && sc.LogoutEvents() != evBefore+1 {
				w.Violate("logout-event", role+"/reactive-"+ending, fmt.Sprintf("EventLogout fired %d times on the peer's immediate answer, want once", sc.LogoutEvents()-evBefore))
			}
			if !tie && s.IsLogged() {
				w.Violate("local-logout-still-logged", role+"/reactive-"+ending, "IsLogged() is true after a completed logout")
			}
			if ending == "stop" && ct > 0 {
				simrt.Settle()
				if !doneSeen {
					w.Violate("stop-not-on-answer", "reactive", fmt.Sprintf("peer answered the Logout of Stop() at once (CloseTimeout %v) but the session context is not cancelled at that instant", ct))
				} else if doneAt.After(answeredAt) {
					w.Violate("stop-not-on-answer", "reactive-late", fmt.Sprintf("context cancelled %v after the answer", doneAt.Sub(answeredAt)))
				}
				_ = t0
			}
			w.Probe("reactive_peer_answer")
		}
		sc.Teardown()
		return
	}
	switch ending {
	case "peer-logout":
		r := dropTimer(sc.Step(sc.Msg("5")))
		if !sc.checkFraming(r) {
			return
		}
		if n := count(r, "5"); n != 1 {
			w.Violate("peer-logout-answer", fmt.Sprintf("count=%d", n), fmt.Sprintf("peer Logout answered by %q, want exactly one Logout", typesOf(r)))
		}
		if s.IsLogged() {
			w.Violate("peer-logout-still-logged", role, "IsLogged() is still true after the peer's Logout")
		}
		// nothing more follows
		simrt.Sleep(time.Duration(w.W.Draw(3000)) * time.Millisecond)
		sc.Settle()
		if n := count(sc.P.Take(), "5"); n != 0 {
			w.Violate("peer-logout-answer", "late-extra", "a further Logout was sent after the exchange was complete")
		}
		w.Probe("peer_logout")

	case "local-logout":
		if !call("Logout", s.Logout) {
			return
		}
		sc.Settle()
		r := dropTimer(sc.P.Take())
		if n := count(r, "5"); n != 1 {
			w.Violate("local-logout-sent", fmt.Sprintf("count=%d", n), fmt.Sprintf("Logout() put %q on the wire, want exactly one Logout", typesOf(r)))
		}
		delay := time.Duration(w.W.Draw(4000)) * time.Millisecond
		simrt.Sleep(delay)
		sc.Settle()
		sc.P.Take()
		if sc.P.EOF {
			w.Inconclusive = "disconnected"
			return
		}
		r = dropTimer(sc.Step(sc.Msg("5")))
		if n := count(r, "5"); n != 0 {
			w.Violate("second-logout", role, fmt.Sprintf("the peer's Logout answer was answered with another Logout (%q)", typesOf(r)))
		}
		if sc.LogoutEvents() != evBefore+1 {
			w.Violate("logout-event", role, fmt.Sprintf("EventLogout fired %d times on the peer's answer, want once", sc.LogoutEvents()-evBefore))
		}
		if s.IsLogged() {
			w.Violate("local-logout-still-logged", role, "IsLogged() is true after a completed logout")
		}
		w.Probe("local_logout")

	case "stop":
		t0 := time.Now()
		if !call("Stop", s.Stop) {
			return
		}
		sc.Settle()
		r := dropTimer(sc.P.Take())
		if n := count(r, "5"); n != 1 {
			w.Violate("stop-logout-sent", fmt.Sprintf("count=%d", n), fmt.Sprintf("Stop() put %q on the wire, want exactly one Logout", typesOf(r)))
		}
		// when does the peer answer?
		var ans time.Duration = -1
		mode := ""
		switch w.W.Pick(3, 3, 2, 2, 3) {
		case 0:
			mode, ans = "same-instant", 0
		case 1:
			mode, ans = "1ms", time.Millisecond
		case 2:
			mode = "just-before-deadline"
			ans = ct - time.Millisecond
		case 3:
			mode = "mid"
			if ct > 0 {
				ans = time.Duration(w.W.Draw(int(ct/time.Millisecond))) * time.Millisecond
			} else {
				ans = 0
			}
		case 4:
			mode = "never"
		}
		if ans < 0 && mode != "never" {
			ans = 0
			mode = "same-instant"
		}
		w.Cfg("answer", mode)
		w.State(mode + "/" + ct.String())
		if mode == "never" || ans >= ct {
			// deadline path: context done exactly at Stop + CloseTimeout
			if mode != "never" && ans > 0 {
				simrt.Sleep(ans)
				sc.Step(sc.Msg("5"))
			}
			if rem := ct - time.Since(t0); rem > 0 {
				simrt.Sleep(rem)
			}
			simrt.Settle()
			if !doneSeen {
				w.Violate("stop-no-deadline", ct.String(), fmt.Sprintf("session context still not cancelled %v after Stop() with CloseTimeout %v", time.Since(t0), ct))
			} else if d := doneAt.Sub(t0); d > ct {
				w.Violate("stop-deadline-late", ct.String(), fmt.Sprintf("context cancelled %v after Stop(), CloseTimeout is %v", d, ct))
			}
			w.Probe("stop_deadline_path")
		} else {
			if ans > 2*time.Millisecond && w.W.Chance(1, 2) {
				// other inbound traffic before the answer is not the answer
				simrt.Sleep(ans / 2)
				sc.Step([][]byte{sc.Msg("0"), sc.Msg("1", F(TagTestReqID, "mid")), sc.Msg("D", F(11, "mid"))}[w.W.Draw(3)])
				simrt.Sleep(ans - ans/2)
				w.Probe("traffic_between_stop_and_answer")
			} else {
				simrt.Sleep(ans)
			}
			sc.Settle()
			if doneSeen && doneAt.Sub(t0) < ans {
				// cancelled before the answer and before the deadline
				w.Violate("stop-early", ct.String(), fmt.Sprintf("context cancelled %v after Stop(), before the answer (%v) and the deadline (%v)", doneAt.Sub(t0), ans, ct))
			}
			ta := time.Now()
			r := dropTimer(sc.Step(sc.Msg("5")))
			if n := count(r, "5"); n != 0 {
				w.Violate("second-logout", role+"/stop", fmt.Sprintf("the peer's Logout answer after Stop() was answered with another Logout (%q)", typesOf(r)))
			}
			simrt.Settle()
			// tie: answer at the very instant of the deadline is accepted either way (cannot happen here: ans < ct)
			if !doneSeen {
				w.Violate("stop-not-on-answer", fmt.Sprintf("close-timeout=%v", ct), fmt.Sprintf("peer answered the Logout %v after Stop() (CloseTimeout %v) but the session context is not cancelled at that instant", ans, ct))
			} else if doneAt.After(ta) {
				w.Violate("stop-not-on-answer", "late", fmt.Sprintf("context cancelled %v after the answer", doneAt.Sub(ta)))
			}
			w.Probe("stop_answer_path")
		}
	}
	if falseHandler && ending != "stop" && len(w.Viol) == 0 && !sc.P.EOF {
		// the application registers one more event handler after the exchange: a local call like any other
		// (a dispatch that ended early on a handler's false must not have kept the pool locked)
		call("OnChangeState", func() error { s.OnChangeState(utils.EventDisconnect, func() bool { return true }); return nil })
		w.Probe("registration_after_false_returning_handler")
	}
	sc.Teardown()
}
