package harness

import (
	"bytes"
	"time"
)

// Peer is a scripted remote endpoint: it injects raw bytes towards the library
// and records, with (event sequence, simulated time) stamps, every byte the
// library writes. It never blocks and shares no code with the library.
type Peer struct {
	w      *World
	C      *Conn // the peer's endpoint
	Name   string
	buf    []byte
	marks  []mark // stamp of every received chunk, by end offset
	taken  int    // messages handed out by Take
	EOF    bool
	EOFSeq uint64
	EOFAt  time.Time
	sent   int
}

type mark struct {
	end int
	seq uint64
	at  time.Time
}

// RxMsg is one complete message captured from the library.
type RxMsg struct {
	Raw  []byte
	Seq  uint64 // event sequence of the chunk that completed it
	At   time.Time
	Type string
}

//go:norace
func NewPeer(w *World, c *Conn, name string) *Peer {
	p := &Peer{w: w, C: c, Name: name}
	c.SetSink(p.onBytes)
	return p
}

//go:norace
func (p *Peer) onBytes(b []byte) {
	if b == nil {
		if !p.EOF {
			p.EOF = true
			p.EOFSeq = p.w.Sched.NextSeq()
			p.EOFAt = time.Now()
			p.w.Sched.Log("rx-eof", p.Name)
		}
		return
	}
	p.buf = append(p.buf, b...)
	p.marks = append(p.marks, mark{end: len(p.buf), seq: p.w.Sched.NextSeq(), at: time.Now()})
	p.w.Sched.Log("rx", p.Name+" "+string(b))
}

// Stream is everything received so far.
//
//go:norace
func (p *Peer) Stream() []byte { return p.buf }

// Msgs parses everything received so far into complete messages.
//
//go:norace
func (p *Peer) Msgs() []RxMsg {
	msgs, _ := Split(p.buf)
	out := make([]RxMsg, 0, len(msgs))
	off := 0
	mi := 0
	for _, m := range msgs {
		off += len(m)
		for mi < len(p.marks) && p.marks[mi].end < off {
			mi++
		}
		r := RxMsg{Raw: m, Type: MsgType(m)}
		if mi < len(p.marks) {
			r.Seq, r.At = p.marks[mi].seq, p.marks[mi].at
		}
		out = append(out, r)
	}
	return out
}

// Rest is the trailing bytes that do not form a complete message yet.
//
//go:norace
func (p *Peer) Rest() []byte { _, r := Split(p.buf); return r }

// Take returns the complete messages received since the previous Take.
//
//go:norace
func (p *Peer) Take() []RxMsg {
	all := p.Msgs()
	out := all[p.taken:]
	p.taken = len(all)
	return out
}

// Send injects one message (or arbitrary bytes) towards the library as one segment.
//
//go:norace
func (p *Peer) Send(b []byte) {
	p.SendShaped(b, nil)
}

// SendShaped injects bytes cut into the given segments (nil: one segment, no delay).
//
//go:norace
func (p *Peer) SendShaped(b []byte, shape func([]byte) []seg) {
	p.sent++
	p.w.Logf("tx", "%s %s", p.Name, Pretty(b))
	if shape == nil {
		p.C.Inject([]seg{{data: append([]byte(nil), b...)}})
		return
	}
	p.C.Inject(shape(append([]byte(nil), b...)))
}

// ---- stream shaping ----

// cutPoints chooses where to cut b. mode: 0 whole, 1 every byte, 2 random cuts,
// 3 cuts biased to the framing-sensitive places (around \x0110=, inside the
// checksum digits, just before the final SOH), 4 = 3 plus random.
//
//go:norace
func cutPoints(t *Tape, b []byte, mode int) []int {
	n := len(b)
	if n <= 1 {
		return nil
	}
	var cuts []int
	switch mode {
	case 0:
	case 1:
		for i := 1; i < n; i++ {
			cuts = append(cuts, i)
		}
	case 2:
		k := 1 + t.Draw(6)
		for i := 0; i < k; i++ {
			cuts = append(cuts, 1+t.Draw(n-1))
		}
	default:
		var hot []int
		for off := 0; ; {
			i := bytes.Index(b[off:], []byte("\x0110="))
			if i < 0 {
				break
			}
			p := off + i
			// after SOH, after '1', after '0', after '=', inside digits, before final SOH
			for d := 0; d <= 7 && p+d < n; d++ {
				if p+d > 0 {
					hot = append(hot, p+d)
				}
			}
			off = p + 1
		}
		if len(hot) == 0 {
			hot = append(hot, n/2)
		}
		k := 1 + t.Draw(3)
		for i := 0; i < k; i++ {
			cuts = append(cuts, hot[t.Draw(len(hot))])
		}
		if mode == 4 {
			cuts = append(cuts, 1+t.Draw(n-1))
		}
	}
	return cuts
}

// ShapeWith returns a shaping function: cut mode as in cutPoints, and a maximum
// per-segment delay (0: all segments readable at once, i.e. coalesced).
//
//go:norace
func (w *World) ShapeWith(t *Tape, mode int, maxDelay time.Duration) func([]byte) []seg {
	return func(b []byte) []seg {
		cuts := cutPoints(t, b, mode)
		mark := make([]bool, len(b)+1)
		for _, c := range cuts {
			if c > 0 && c < len(b) {
				mark[c] = true
			}
		}
		var out []seg
		start := 0
		at := time.Now()
		for i := 1; i <= len(b); i++ {
			if i == len(b) || mark[i] {
				if maxDelay > 0 {
					at = at.Add(time.Duration(t.Draw(int(maxDelay/time.Millisecond)+1)) * time.Millisecond)
				}
				out = append(out, seg{at: at, data: b[start:i]})
				start = i
			}
		}
		if len(out) > 1 {
			w.Probe("segmented_send")
		}
		return out
	}
}
