#!/usr/bin/env python3
"""Re-runs every seeded change under /verif/seeded against the current checks (in throw-away
worktrees of /repo's HEAD, never in /repo) and records the outcome in each meta.json and in
/verif/seeded/MATRIX.md."""
import json, os, re, shutil, subprocess, sys, tempfile

root = "/verif/seeded"
rows = []
only = sys.argv[1:]
for d in sorted(os.listdir(root)):
    p = os.path.join(root, d)
    if not os.path.isdir(p) or not os.path.exists(os.path.join(p, "patch.diff")):
        continue
    if only and d not in only and d.split("-")[0] not in only:
        mp = os.path.join(p, "meta.json")
        if os.path.exists(mp):
            m = json.load(open(mp))
            if "final" in m:
                rows.append((d, m))
        continue
    meta = json.load(open(os.path.join(p, "meta.json")))
    pid = meta["property"]
    wt = tempfile.mkdtemp(prefix="sfseed-", dir="/var/tmp"); os.rmdir(wt)
    out = tempfile.mkdtemp(prefix="sfseedout-", dir="/var/tmp")
    subprocess.run(["git", "-C", "/repo", "worktree", "add", "-q", "--detach", wt, "HEAD"], check=True)
    try:
        r = subprocess.run(["git", "apply", os.path.join(p, "patch.diff")], cwd=wt, stdout=subprocess.PIPE, stderr=subprocess.STDOUT, text=True)
        if r.returncode != 0:
            meta["final"] = {"applies": False, "note": r.stdout[-300:]}
        else:
            r = subprocess.run(["/verif/check", pid, "quick"], env=dict(os.environ, VERIF_REPO=wt, VERIF_OUT_DIR=out), stdout=subprocess.PIPE, stderr=subprocess.STDOUT, text=True)
            classes = sorted(set(re.findall(r"class=(\S+) key=(.*)", r.stdout)))
            meta["final"] = {"applies": True, "check": pid, "exit": r.returncode, "caught": r.returncode == 1,
                             "violations": ["%s / %s" % (c, k[:140]) for c, k in classes][:6]}
            for p2 in meta.get("also", []):
                r2 = subprocess.run(["/verif/check", p2, "quick"], env=dict(os.environ, VERIF_REPO=wt, VERIF_OUT_DIR=out), stdout=subprocess.PIPE, stderr=subprocess.STDOUT, text=True)
                c2 = sorted(set(re.findall(r"class=(\S+) key=(.*)", r2.stdout)))
                meta["final"].setdefault("also", {})[p2] = {"exit": r2.returncode, "violations": ["%s / %s" % (c, k[:140]) for c, k in c2][:4]}
    finally:
        subprocess.run(["git", "-C", "/repo", "worktree", "remove", "--force", wt])
        shutil.rmtree(wt, ignore_errors=True); shutil.rmtree(out, ignore_errors=True)
    json.dump(meta, open(os.path.join(p, "meta.json"), "w"), indent=1)
    rows.append((d, meta))
    print(d, meta["final"].get("caught"), meta["final"].get("violations", [])[:2], flush=True)
with open(os.path.join(root, "MATRIX.md"), "w") as f:
    f.write("| seeded change | confirmed (suite passes, demo fails with / passes without) | caught by ./check <property> quick | first violation classes |\n|---|---|---|---|\n")
    for d, m in rows:
        fi = m.get("final", {})
        conf = "revert of fix %s" % m.get("commit") if m.get("kind") == "revert-of-fix" else ("yes" if m.get("confirmed") else "no")
        also = "".join("; also %s: %s" % (p2, "caught" if a.get("exit") == 1 else "exit %s" % a.get("exit")) for p2, a in sorted(fi.get("also", {}).items()))
        f.write("| %s (%s) | %s | %s%s | %s |\n" % (d, m.get("property"), conf, "yes" if fi.get("caught") else "NO (exit %s)" % fi.get("exit"), also, "; ".join(fi.get("violations", [])[:2]).replace("|", "\\|")))
