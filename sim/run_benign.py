#!/usr/bin/env python3
"""run_benign.py [name ...]

False-alarm test: runs every quick check against each behaviour-preserving refactoring kept
under /verif/benign/<name>/patch.diff (throw-away worktree of /repo's HEAD, never /repo
itself; outputs redirected). Every check must exit 0 on every one of them; anything else is a
false alarm (exit 1) or an instrumenter/harness refusal (exit 2/3) and is printed.
Writes /verif/benign/RESULTS.md."""
import json, os, re, shutil, subprocess, sys, tempfile

sys.path.insert(0, os.path.dirname(os.path.abspath(__file__)))
from props import PROPS

root = "/verif/benign"
only = sys.argv[1:]
rows, bad = [], 0
prev = {}
rp = os.path.join(root, "results.json")
if os.path.exists(rp):
    prev = json.load(open(rp))
for d in sorted(os.listdir(root)):
    p = os.path.join(root, d, "patch.diff")
    if not os.path.exists(p):
        continue
    if only and d not in only:
        continue
    wt = tempfile.mkdtemp(prefix="sfbenign-", dir="/var/tmp"); os.rmdir(wt)
    out = tempfile.mkdtemp(prefix="sfbenignout-", dir="/var/tmp")
    subprocess.run(["git", "-C", "/repo", "worktree", "add", "-q", "--detach", wt, "HEAD"], check=True)
    res = {}
    try:
        r = subprocess.run(["git", "apply", p], cwd=wt, stdout=subprocess.PIPE, stderr=subprocess.STDOUT, text=True)
        if r.returncode != 0:
            res["apply"] = r.stdout[-300:]
        else:
            only_checks = [x for x in os.environ.get("BENIGN_CHECKS", "").split(",") if x]
            res = dict(prev.get(d, {})) if only_checks else res
            res.pop("apply", None)
            for pid in (only_checks or sorted(PROPS)):
                r = subprocess.run(["/verif/check", pid, "quick"], env=dict(os.environ, VERIF_REPO=wt, VERIF_OUT_DIR=out), stdout=subprocess.PIPE,
                                   stderr=subprocess.STDOUT, text=True)
                lines = [l for l in r.stdout.splitlines() if "class=" in l or l.startswith("VIOLATION") or l.startswith("check:")]
                res[pid] = {"exit": r.returncode, "lines": lines[:4]}
    finally:
        subprocess.run(["git", "-C", "/repo", "worktree", "remove", "--force", wt])
        shutil.rmtree(wt, ignore_errors=True); shutil.rmtree(out, ignore_errors=True)
    prev[d] = res
    alarms = [k for k, v in res.items() if k == "apply" or v["exit"] != 0]
    bad += len(alarms)
    print(d, "ok" if not alarms else "ALARM %s" % {k: res[k] for k in alarms}, flush=True)
json.dump(prev, open(rp, "w"), indent=1, sort_keys=True)
with open(os.path.join(root, "RESULTS.md"), "w") as f:
    f.write("| behaviour-preserving change | checks exiting 0 | alarms / refusals |\n|---|---|---|\n")
    for d in sorted(prev):
        res = prev[d]
        ok = [k for k, v in res.items() if k != "apply" and v["exit"] == 0]
        al = ["%s exit %s" % (k, v["exit"]) for k, v in res.items() if k != "apply" and v["exit"] != 0]
        if "apply" in res:
            al.append("patch does not apply")
        f.write("| %s | %d/%d | %s |\n" % (d, len(ok), len(PROPS), "; ".join(al) or "none"))
sys.exit(1 if bad else 0)
