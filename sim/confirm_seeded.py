#!/usr/bin/env python3
"""confirm_seeded.py <agent-worktree> <PROP-ID> [k ...]

Independently confirms the seeded changes a sub-agent left in <agent-worktree>/_seeded:
for patch<k>.diff + demo<k>_test.go it builds two throw-away worktrees of /repo's HEAD,
  - with the patch: the repository's stable tests still pass, the demo FAILS;
  - without it: the demo PASSES;
then runs the given property's quick check against the patched tree (never against /repo)
and stores everything under /verif/seeded/<PROP-ID>-<k>/ (patch.diff, demo, meta.json).
"""
import json, os, re, shutil, subprocess, sys, tempfile

ENV = dict(os.environ, GOFLAGS="-mod=mod", GOPROXY="off", GOSUMDB="off")
PKGDIR = {"tests": "tests", "session": "session", "simplefixgo": ".", "encoding": "fix/encoding", "fix": "fix", "memory": "storages/memory",
          "utils": "utils", "messages": "session/messages"}


def sh(cmd, cwd=None, timeout=900):
    r = subprocess.run(cmd, cwd=cwd, env=ENV, stdout=subprocess.PIPE, stderr=subprocess.STDOUT, text=True, timeout=timeout)
    return r.returncode, r.stdout


def worktree():
    d = tempfile.mkdtemp(prefix="sfconfirm-", dir="/var/tmp")
    os.rmdir(d)
    rc, out = sh(["git", "-C", "/repo", "worktree", "add", "-q", "--detach", d, "HEAD"])
    if rc != 0:
        sys.exit("worktree: " + out)
    return d


def drop(d):
    sh(["git", "-C", "/repo", "worktree", "remove", "--force", d])
    shutil.rmtree(d, ignore_errors=True)


def stable_ok(d):
    with open("/root/.vp/BASELINE.json") as f:
        stable = json.load(f)["stable_pass"]
    rc, out = sh(["go", "test", "-json", "-vet=off", "-count=1", "-timeout", "20m", "./..."], cwd=d)
    res = {}
    for l in out.splitlines():
        try:
            e = json.loads(l)
        except ValueError:
            continue
        if e.get("Test") and e.get("Action") in ("pass", "fail"):
            res[e["Package"] + "::" + e["Test"]] = e["Action"]
    bad = [t for t in stable if res.get(t) != "pass"]
    return not bad, bad


def demo_dir(demo):
    src = open(demo).read()
    m = re.search(r"^package\s+(\w+)", src, re.M)
    pkg = m.group(1)
    base = pkg[:-5] if pkg.endswith("_test") else pkg
    return PKGDIR.get(base, base), pkg


def run_demo(d, demo, race):
    sub, pkg = demo_dir(demo)
    dst = os.path.join(d, sub, "zz_seeded_demo_test.go")
    shutil.copy(demo, dst)
    names = re.findall(r"^func (Test\w+)\(", open(demo).read(), re.M)
    cmd = ["go", "test", "-vet=off", "-count=1", "-timeout", "10m", "-run", "^(" + "|".join(names) + ")$"]
    if race:
        cmd.insert(2, "-race")
    fails = 0
    tries = 3 if race else 2
    out = ""
    for _ in range(tries):
        rc, out = sh(cmd + ["./" + sub if sub != "." else "."], cwd=d)
        if rc != 0:
            fails += 1
    os.remove(dst)
    return fails, tries, out[-1500:]


def main():
    wt, pid = sys.argv[1], sys.argv[2]
    sd = os.path.join(wt, "_seeded")
    ks = sys.argv[3:] or sorted(re.findall(r"patch(\d+)\.diff", " ".join(os.listdir(sd))))
    for k in ks:
        patch = os.path.join(sd, "patch%s.diff" % k)
        demo = os.path.join(sd, "demo%s_test.go" % k)
        if not os.path.exists(patch) or not os.path.exists(demo):
            print("%s-%s: missing patch or demo" % (pid, k))
            continue
        race = pid == "C20" or "-race" in open(os.path.join(sd, "NOTES.md")).read().split("demo%s" % k)[-1][:600] if os.path.exists(os.path.join(sd, "NOTES.md")) else pid == "C20"
        a, b = worktree(), worktree()
        meta = {"property": pid, "k": k}
        try:
            rc, out = sh(["git", "apply", patch], cwd=a)
            if rc != 0:
                print("%s-%s: patch does not apply: %s" % (pid, k, out))
                continue
            rc, out = sh(["go", "build", "./..."], cwd=a)
            if rc != 0:
                print("%s-%s: does not build: %s" % (pid, k, out[-500:]))
                continue
            ok, bad = stable_ok(a)
            meta["stable_tests_pass_with_change"] = ok
            meta["stable_tests_failing"] = bad
            fa, ta, outa = run_demo(a, demo, race)
            fb, tb, outb = run_demo(b, demo, race)
            meta["demo_fails_with_change"] = "%d/%d" % (fa, ta)
            meta["demo_fails_without_change"] = "%d/%d" % (fb, tb)
            meta["demo_race"] = race
            confirmed = ok and fa > 0 and fb == 0
            meta["confirmed"] = confirmed
            # my checks against the patched tree
            out_dir = tempfile.mkdtemp(prefix="sfseedout-", dir="/var/tmp")
            checks = {}
            for p in [pid] + [x for x in os.environ.get("ALSO", "").split(",") if x]:
                r = subprocess.run(["/verif/check", p, "quick"], env=dict(os.environ, VERIF_REPO=a, VERIF_OUT_DIR=out_dir), stdout=subprocess.PIPE,
                                   stderr=subprocess.STDOUT, text=True)
                lines = [l for l in r.stdout.splitlines() if "class=" in l or l.startswith("VIOLATION") or l.startswith("check:")]
                checks[p] = {"exit": r.returncode, "lines": lines[:8]}
            shutil.rmtree(out_dir, ignore_errors=True)
            meta["checks"] = checks
            print(json.dumps(meta, indent=1))
            if not confirmed:
                print("%s-%s: NOT CONFIRMED (demo tail with change: %s)" % (pid, k, outa[-600:]))
            dst = os.path.join("/verif/seeded", "%s%s" % (os.environ.get("NAME") or "%s-%s" % (pid, os.environ.get("WAVE", "")), k))
            os.makedirs(dst, exist_ok=True)
            shutil.copy(patch, os.path.join(dst, "patch.diff"))
            shutil.copy(demo, os.path.join(dst, "demo_test.go"))
            notes = os.path.join(sd, "NOTES.md")
            if os.path.exists(notes):
                shutil.copy(notes, os.path.join(dst, "NOTES.agent.md"))
            with open(os.path.join(dst, "meta.json"), "w") as f:
                json.dump(meta, f, indent=1)
        finally:
            drop(a)
            drop(b)


if __name__ == "__main__":
    main()
