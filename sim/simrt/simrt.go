// Package simrt is the deterministic scheduler that instrumented library code
// and the simulation harness run under.
//
// Every task is a real goroutine inside one testing/synctest bubble. Exactly one
// task runs library code at a time ("holds the baton"). A task gives the baton
// back by calling Yield (or any sim primitive), which parks it on a private
// channel; the scheduler (the bubble's root goroutine) waits for the bubble to
// become quiescent (synctest.Wait), sorts the parked runnable tasks by their
// deterministic id and asks a Chooser which one continues. When nothing is
// runnable at the current instant the scheduler blocks, the bubble is idle and
// synctest advances the fake clock to the next timer: the discrete-event step.
//
// With no scheduler installed (Current()==nil) every primitive falls through to
// the real one, so instrumented code also runs the repository's own tests.
package simrt

import (
	"fmt"
	"hash/fnv"
	"runtime"
	"runtime/debug"
	"sort"
	"strconv"
	"strings"
	"sync"
	"sync/atomic"
	"time"
)

// Chooser supplies every scheduling decision. Choose must return a value in [0,n).
// Value 0 is the "boring" choice: keep running the current task (if it is
// runnable), otherwise the lowest id.
type Chooser interface {
	Choose(kind string, n int) int
}

// TaskChooser is an optional extension: a chooser that wants to know which tasks it chooses
// among (priority-based policies). ids[i] is the deterministic id of candidate i, in the same
// order Choose would see them (the current task first, if it is runnable).
type TaskChooser interface {
	ChooseTask(kind string, ids []string) int
}

type zeroChooser struct{}

//go:norace
func (zeroChooser) Choose(string, int) int { return 0 }

// Task is one schedulable goroutine.
type Task struct {
	ID       string // deterministic: parent id + "." + spawn index
	Name     string // role label (spawn site or harness name)
	goid     int64
	wake     chan struct{}
	site     string
	low      bool // parked by Settle: runs only when nothing else is runnable
	waitM    *Mutex
	waitR    *RWMutex
	waitW    bool // with waitR: wants the write lock
	wcounted bool // counted in waitR.wwait (it found the lock held)
	spinSite string
	spinN    int
	waitF    func() bool
	nsp      int
	sched    *Sched
	gone     bool
	// Harness marks its own tasks so the leak census can ignore them.
	Harness bool
}

// PanicInfo describes a panic recovered at a task's entry.
type PanicInfo struct {
	Task  string
	Name  string
	Value string
	Stack string
}

// Sched is one simulation run's scheduler.
type Sched struct {
	mu      sync.Mutex
	live    []*Task // tasks bound to a goroutine, scanned linearly by goid
	parked  []*Task
	all     []*Task
	poke    chan struct{}
	chooser Chooser
	current *Task

	WaitIdle func() // synctest.Wait, injected by the harness (keeps this package free of testing deps)

	MaxSteps    int64
	spinAfter   int
	spinQuantum time.Duration
	MaxSimTime  time.Duration
	MaxRun      int // fairness: max consecutive picks of one task while others are runnable

	Steps     int64
	Switches  int64
	Preempts  int64 // a runnable current task was not continued
	IdleJumps int64 // times the scheduler blocked so that the clock could advance
	consec    int

	seq atomic.Uint64 // global event sequence

	hash      uint64 // rolling hash of all decisions and logged events
	swHash    uint64 // rolling hash of context switches only: (task name, site) on switch
	pairs     map[string]int
	Trace     func(string) // optional line sink, must not draw randomness or read real clocks
	foreign   int
	Panics    []PanicInfo
	abort     string
	driverEnd bool
	start     time.Time
}

var cur atomic.Pointer[Sched]

// Current returns the installed scheduler or nil.
//
//go:norace
func Current() *Sched { return cur.Load() }

// New creates a scheduler. Call Run on the root goroutine of a synctest bubble.
//
//go:norace
func New(ch Chooser, waitIdle func()) *Sched {
	if ch == nil {
		ch = zeroChooser{}
	}
	return &Sched{
		poke:       make(chan struct{}, 1),
		chooser:    ch,
		WaitIdle:   waitIdle,
		MaxSteps:   400000,
		MaxSimTime: 24 * time.Hour,
		MaxRun:     400,
		pairs:      map[string]int{},
		hash:       1469598103934665603,
		swHash:     1469598103934665603,
	}
}

//go:norace
func goid() int64 {
	var buf [40]byte
	n := runtime.Stack(buf[:], false)
	// "goroutine 123 ["
	s := buf[10:n]
	var id int64
	for _, c := range s {
		if c < '0' || c > '9' {
			break
		}
		id = id*10 + int64(c-'0')
	}
	return id
}

//go:norace
func mix(h uint64, s string) uint64 {
	for i := 0; i < len(s); i++ {
		h ^= uint64(s[i])
		h *= 1099511628211
	}
	h ^= 0xff
	h *= 1099511628211
	return h
}

// lock / unlock guard the scheduler's own state. The race detector must never see them:
// a visible mutex shared by every task would order all their memory accesses and hide
// the library's races (an early version took it visibly in self() and Perm(), which masked
// every pair of accesses separated by a scheduling point).
//
//go:norace
func (s *Sched) lock() { raceDisable(); s.mu.Lock() }

//go:norace
func (s *Sched) unlock() { s.mu.Unlock(); raceEnable() }

// NextSeq returns the next global event sequence number.
//
//go:norace
func (s *Sched) NextSeq() uint64 {
	raceDisable() // an atomic shared by every task is synchronisation too: keep it invisible
	v := s.seq.Add(1)
	raceEnable()
	return v
}

// Log folds a harness event into the run hash (and the trace, if enabled).
//
//go:norace
func (s *Sched) Log(kind, detail string) {
	s.lock()
	s.hash = mix(mix(s.hash, kind), detail)
	tr := s.Trace
	s.unlock()
	if tr != nil {
		tr(kind + " " + detail)
	}
}

// Hash returns the rolling hash over every decision and logged event.
//
//go:norace
func (s *Sched) Hash() uint64 { s.lock(); defer s.unlock(); return s.hash }

// SwitchHash returns the hash of the context-switch sequence.
//
//go:norace
func (s *Sched) SwitchHash() uint64 { s.lock(); defer s.unlock(); return s.swHash }

// Pairs returns the set of (from-site -> to-site) preemption pairs seen.
//
//go:norace
func (s *Sched) Pairs() map[string]int {
	s.lock()
	defer s.unlock()
	m := make(map[string]int, len(s.pairs))
	for k, v := range s.pairs {
		m[k] = v
	}
	return m
}

// FreshStepBudget lets the run take n more scheduling steps from now on, whatever it has used so far.
//
//go:norace
func (s *Sched) FreshStepBudget(n int64) {
	s.lock()
	s.MaxSteps = s.Steps + n
	s.unlock()
}

// ChargeSpinning: from now on a task that passes the same scheduling point `after` times in a row
// sleeps for `quantum` of simulated time (see park).
//
//go:norace
func (s *Sched) ChargeSpinning(after int, quantum time.Duration) {
	s.lock()
	s.spinAfter, s.spinQuantum = after, quantum
	s.unlock()
}

// AbortReason is "" for a normal end, else steplimit / simtime / panic / <custom>.
//
//go:norace
func (s *Sched) AbortReason() string { s.lock(); defer s.unlock(); return s.abort }

// Abort ends the run at the next scheduling point.
//
//go:norace
func (s *Sched) Abort(reason string) {
	s.lock()
	if s.abort == "" {
		s.abort = reason
	}
	s.unlock()
}

// Foreign is the number of goroutines that entered the scheduler without a
// deterministic identity (started by code the instrumenter did not see).
//
//go:norace
func (s *Sched) Foreign() int { s.lock(); defer s.unlock(); return s.foreign }

//go:norace
func (s *Sched) self() *Task {
	g := goid()
	s.lock()
	var t *Task
	for _, x := range s.live {
		if x.goid == g {
			t = x
			break
		}
	}
	if t == nil {
		s.foreign++
		t = &Task{ID: "x." + strconv.Itoa(s.foreign), Name: "foreign", goid: g, wake: make(chan struct{}), sched: s}
		s.live = append(s.live, t)
		s.all = append(s.all, t)
	}
	s.unlock()
	return t
}

// Self returns the calling goroutine's task (nil if no scheduler).
//
//go:norace
func Self() *Task {
	s := Current()
	if s == nil {
		return nil
	}
	return s.self()
}

//go:norace
func (s *Sched) newTask(parent *Task, name string) *Task {
	var id string
	if parent == nil {
		id = "0"
	} else {
		s.lock()
		parent.nsp++
		id = parent.ID + "." + strconv.Itoa(parent.nsp)
		s.unlock()
	}
	t := &Task{ID: id, Name: name, wake: make(chan struct{}), sched: s}
	if parent != nil {
		t.Harness = false
	}
	return t
}

// enter binds the calling goroutine to t and parks it until first scheduled.
//
//go:norace
func (s *Sched) enter(t *Task) {
	raceDisable()
	g := goid()
	s.lock()
	t.goid = g
	t.gone = false
	s.live = append(s.live, t)
	s.all = append(s.all, t)
	s.unlock()
	raceEnable()
	s.park(t, "start:"+t.Name)
}

//go:norace
func (s *Sched) leave(t *Task) {
	raceDisable()
	s.lock()
	for i, x := range s.live {
		if x == t {
			last := len(s.live) - 1
			s.live[i] = s.live[last]
			s.live[last] = nil
			s.live = s.live[:last]
			break
		}
	}
	t.gone = true
	if s.current == t {
		s.current = nil
	}
	s.unlock()
	raceEnable()
}

//go:norace
func (s *Sched) runTask(t *Task, fn func()) {
	s.enter(t)
	defer func() {
		if r := recover(); r != nil {
			st := string(debug.Stack())
			s.lock()
			s.Panics = append(s.Panics, PanicInfo{Task: t.ID, Name: t.Name, Value: fmt.Sprint(r), Stack: st})
			if s.abort == "" {
				s.abort = "panic"
			}
			s.unlock()
		}
		s.leave(t)
	}()
	fn()
}

// Go starts fn as a new task (instrumented replacement of the go statement).
//
//go:norace
func Go(site string, fn func()) {
	s := Current()
	if s == nil {
		go fn()
		return
	}
	t := s.newTask(s.self(), site)
	go s.runTask(t, fn)
}

// GoHarness starts a harness-owned task.
//
//go:norace
func GoHarness(name string, fn func()) *Task {
	s := Current()
	if s == nil {
		go fn()
		return nil
	}
	t := s.newTask(s.self(), name)
	t.Harness = true
	go s.runTask(t, fn)
	return t
}

// Wrap gives a function that some un-instrumented code will run on a goroutine
// of its own (time.AfterFunc) a deterministic task identity allocated now.
//
//go:norace
func Wrap(site string, fn func()) func() {
	s := Current()
	if s == nil {
		return fn
	}
	parent := s.self()
	base := s.newTask(parent, site)
	var n int32
	return func() {
		s2 := Current()
		if s2 != s {
			fn()
			return
		}
		t := base
		if k := atomic.AddInt32(&n, 1); k > 1 {
			t = &Task{ID: base.ID + "r" + strconv.Itoa(int(k)), Name: site, wake: make(chan struct{}), sched: s}
		}
		s.runTask(t, fn)
	}
}

// WrapE is Wrap for func() error (errgroup.Group.Go).
//
//go:norace
func WrapE(site string, fn func() error) func() error {
	s := Current()
	if s == nil {
		return fn
	}
	parent := s.self()
	t := s.newTask(parent, site)
	return func() (err error) {
		if Current() != s {
			return fn()
		}
		s.runTask(t, func() { err = fn() })
		return err
	}
}

//go:norace
func (s *Sched) park(t *Task, site string) {
	raceDisable()
	s.lock()
	t.site = site
	s.parked = append(s.parked, t)
	s.unlock()
	select {
	case s.poke <- struct{}{}:
	default:
	}
	<-t.wake
	if s.spinAfter > 0 && site != "spin'" {
		// A loop that keeps coming back to one scheduling point without ever blocking would freeze the
		// simulated clock (time only moves when everything is blocked). Once a scenario has asked for
		// it, such a task is charged simulated time, so that whatever is meant to end the loop
		// (a deadline, a timer) can still happen, and only an endless loop exhausts the step budget.
		if site == t.spinSite {
			t.spinN++
		} else {
			t.spinSite, t.spinN = site, 1
		}
		if t.spinN >= s.spinAfter {
			t.spinN = 0
			time.Sleep(s.spinQuantum)
			s.lock()
			t.site = "spin'"
			s.parked = append(s.parked, t)
			s.unlock()
			select {
			case s.poke <- struct{}{}:
			default:
			}
			<-t.wake
		}
	}
	raceEnable()
}

// Yield is a scheduling point.
//
//go:norace
func Yield(site string) {
	s := Current()
	if s == nil {
		return
	}
	s.park(s.self(), site)
}

// Settle parks the caller until no other task is runnable at the current instant.
//
//go:norace
func Settle() {
	s := Current()
	if s == nil {
		return
	}
	t := s.self()
	t.low = true
	s.park(t, "settle")
	t.low = false
}

// WaitFor parks the caller until cond() is true. cond is evaluated by the
// scheduler while every task is parked, so it may read harness state freely.
//
//go:norace
func WaitFor(site string, cond func() bool) {
	s := Current()
	if s == nil {
		for !cond() {
			time.Sleep(time.Millisecond)
		}
		return
	}
	t := s.self()
	t.waitF = cond
	s.park(t, site)
	t.waitF = nil
}

// Sleep sleeps on the bubble's fake clock and parks after waking.
//
//go:norace
func Sleep(d time.Duration) {
	s := Current()
	if s == nil {
		time.Sleep(d)
		return
	}
	t := s.self()
	s.park(t, "sleep")
	time.Sleep(d)
	s.park(t, "sleep'")
}

// Perm returns the index of the select case to poll first.
//
//go:norace
func Perm(site string, n int) int {
	s := Current()
	if s == nil || n <= 1 {
		return 0
	}
	s.lock()
	defer s.unlock()
	v := s.chooser.Choose("select", n)
	if v < 0 || v >= n {
		v = 0
	}
	s.hash = mix(mix(s.hash, "sel:"+site), strconv.Itoa(v))
	return v
}

// Zero returns the zero value of a channel's element type (typed select temporaries).
//
//go:norace
func Zero[T any](c <-chan T) (v T, ok bool) { return }

//go:norace
func (s *Sched) runnable(t *Task) bool {
	switch {
	case t.waitM != nil:
		return t.waitM.owner == nil
	case t.waitR != nil:
		rw := t.waitR
		if t.waitW {
			return rw.writer == nil && rw.readers == 0
		}
		return rw.writer == nil && rw.wwait == 0
	case t.waitF != nil:
		return t.waitF()
	}
	return true
}

//go:norace
func (s *Sched) pick() *Task {
	s.lock()
	defer s.unlock()
	var cands, lows []*Task
	for _, t := range s.parked {
		if !s.runnable(t) {
			continue
		}
		if t.low {
			lows = append(lows, t)
		} else {
			cands = append(cands, t)
		}
	}
	if len(cands) == 0 {
		cands = lows
	}
	if len(cands) == 0 {
		return nil
	}
	sort.Slice(cands, func(i, j int) bool { return cands[i].ID < cands[j].ID })
	curIdx := -1
	for i, t := range cands {
		if t == s.current {
			curIdx = i
		}
	}
	if curIdx > 0 {
		c := cands[curIdx]
		copy(cands[1:curIdx+1], cands[0:curIdx])
		cands[0] = c
	}
	idx := 0
	if len(cands) > 1 {
		choose := s.chooser.Choose
		if tc, ok := s.chooser.(TaskChooser); ok {
			choose = func(kind string, n int) int {
				ids := make([]string, 0, n)
				for _, c := range cands[len(cands)-n:] {
					ids = append(ids, c.ID)
				}
				return tc.ChooseTask(kind, ids)
			}
		}
		if curIdx >= 0 && s.consec >= s.MaxRun {
			// fairness: a task that has run MaxRun times in a row yields to the others
			idx = 1 + choose("fair", len(cands)-1)
		} else {
			kind := "task" // cands[0] is the current task: 0 = no preemption
			if curIdx < 0 {
				kind = "next" // the current task blocked or exited: a free choice
			}
			idx = choose(kind, len(cands))
		}
		if idx < 0 || idx >= len(cands) {
			idx = 0
		}
	}
	t := cands[idx]
	for i, p := range s.parked {
		if p == t {
			for j := i; j+1 < len(s.parked); j++ {
				s.parked[j] = s.parked[j+1]
			}
			s.parked[len(s.parked)-1] = nil
			s.parked = s.parked[:len(s.parked)-1]
			break
		}
	}
	if t.waitM != nil {
		t.waitM.owner = t
		t.waitM = nil
	}
	if t.waitR != nil {
		if t.waitW {
			t.waitR.writer = t
			if t.wcounted {
				t.waitR.wwait--
				t.wcounted = false
			}
		} else {
			t.waitR.readers++
		}
		t.waitR = nil
	}
	s.Steps++
	if t != s.current {
		s.Switches++
		s.consec = 0
		s.swHash = mix(mix(s.swHash, t.Name), t.site)
		if curIdx >= 0 {
			s.Preempts++
			k := s.current.site + " -> " + t.site
			s.pairs[k]++
		}
	} else {
		s.consec++
	}
	s.hash = mix(mix(s.hash, t.ID), t.site)
	s.current = t
	if s.Trace != nil {
		s.Trace("run " + t.ID + " " + t.Name + " @" + t.site)
	}
	return t
}

// Run runs driver as the first task and schedules until it returns or the run is
// aborted. Must be called on the root goroutine of a synctest bubble.
//
//go:norace
func (s *Sched) Run(name string, driver func()) {
	if !cur.CompareAndSwap(nil, s) {
		panic("simrt: a scheduler is already installed")
	}
	defer cur.Store(nil)
	s.start = time.Now()
	horizon := time.NewTimer(s.MaxSimTime)
	defer horizon.Stop()
	t := s.newTask(nil, name)
	t.Harness = true
	// started before the scheduler hides its synchronisation from the race detector:
	// goroutine creation must keep its happens-before edge (package initialisation etc.)
	go s.runTask(t, func() {
		defer func() {
			s.lock()
			s.driverEnd = true
			s.unlock()
		}()
		driver()
	})
	raceDisable()
	defer raceEnable()
	for {
		select {
		case <-s.poke:
		default:
		}
		s.WaitIdle()
		s.lock()
		end := s.driverEnd || s.abort != ""
		over := s.Steps >= s.MaxSteps
		if over && s.abort == "" && !end {
			s.abort = "steplimit"
			end = true
		}
		s.unlock()
		if end {
			return
		}
		nt := s.pick()
		if nt == nil {
			s.lock()
			s.IdleJumps++
			s.unlock()
			select {
			case <-s.poke:
			case <-horizon.C:
				s.Abort("simtime")
				return
			}
			continue
		}
		nt.wake <- struct{}{}
	}
}

// Elapsed is the simulated time since Run started.
//
//go:norace
func (s *Sched) Elapsed() time.Duration { return time.Since(s.start) }

// TaskState describes a task that still exists (for leak / deadlock reports).
type TaskState struct {
	Goid           int64
	ID, Name, Site string
	Parked         bool
	Harness        bool
	Waiting        string
}

// Alive lists tasks that have not exited, sorted by id.
//
//go:norace
func (s *Sched) Alive() []TaskState {
	s.lock()
	defer s.unlock()
	var out []TaskState
	parked := map[*Task]bool{}
	for _, t := range s.parked {
		parked[t] = true
	}
	for _, t := range s.all {
		if t.gone {
			continue
		}
		w := ""
		if t.waitM != nil {
			w = "mutex"
		} else if t.waitR != nil {
			w = "rwmutex"
		}
		out = append(out, TaskState{Goid: t.goid, ID: t.ID, Name: t.Name, Site: t.site, Parked: parked[t], Harness: t.Harness, Waiting: w})
	}
	sort.Slice(out, func(i, j int) bool { return out[i].ID < out[j].ID })
	return out
}

//go:norace
func (t TaskState) String() string {
	st := "blocked-after"
	if t.Parked {
		st = "parked-at"
	}
	if t.Waiting != "" {
		st = "waiting-" + t.Waiting + "-at"
	}
	return t.ID + " " + t.Name + " " + st + " " + t.Site
}

// SiteBase strips the trailing prime from a site label.
//
//go:norace
func SiteBase(site string) string { return strings.TrimRight(site, "'") }

//go:norace
func fnv64(s string) uint64 { h := fnv.New64a(); h.Write([]byte(s)); return h.Sum64() }

var _ = fnv64

// Elem types a select send value by the channel's element type (so untyped
// constants and nil keep their meaning when hoisted into a temporary).
//
//go:norace
func Elem[T any](c chan<- T, v T) T { return v }

// WrapG wraps the argument of an X.Go(...) call whatever its type: func() error (errgroup),
// func() (worker pools), anything else is passed through untouched.
//
//go:norace
func WrapG[F any](site string, f F) F {
	switch g := any(f).(type) {
	case func() error:
		return any(WrapE(site, g)).(F)
	case func():
		return any(Wrap(site, g)).(F)
	}
	return f
}
