//go:build !race

package simrt

func raceDisable() {}
func raceEnable()  {}

const RaceEnabled = false

func RaceDisable() {}
func RaceEnable()  {}
