package simrt

import (
	"sync"
	"sync/atomic"
)

// Mutex replaces sync.Mutex in instrumented code. Under a scheduler a blocked
// Lock parks in the scheduler (a goroutine blocked on a real mutex is not
// durably blocked for synctest and would hang the simulator). The real mutex is
// still taken (never contended) so the race detector keeps seeing the library's
// own happens-before edges.
type Mutex struct {
	real  sync.Mutex
	owner *Task
}

//go:norace
func (m *Mutex) Lock() {
	s := Current()
	if s == nil {
		m.real.Lock()
		return
	}
	t := s.self()
	t.waitM = m
	s.park(t, "Mutex.Lock")
	m.real.Lock()
}

//go:norace
func (m *Mutex) TryLock() bool {
	s := Current()
	if s == nil {
		return m.real.TryLock()
	}
	t := s.self()
	s.park(t, "Mutex.TryLock")
	s.lock()
	ok := m.owner == nil
	if ok {
		m.owner = t
	}
	s.unlock()
	if ok {
		m.real.Lock()
	}
	return ok
}

//go:norace
func (m *Mutex) Unlock() {
	s := Current()
	if s == nil {
		m.real.Unlock()
		return
	}
	m.real.Unlock()
	raceDisable()
	s.lock()
	m.owner = nil
	s.unlock()
	raceEnable()
}

// RWMutex replaces sync.RWMutex. Like the real one it blocks new readers while
// a writer is waiting.
type RWMutex struct {
	real    sync.RWMutex
	writer  *Task
	readers int
	wwait   int
}

//go:norace
func (m *RWMutex) Lock() {
	s := Current()
	if s == nil {
		m.real.Lock()
		return
	}
	t := s.self()
	raceDisable()
	s.lock()
	m.wwait++
	s.unlock()
	raceEnable()
	t.waitR, t.waitW = m, true
	s.park(t, "RWMutex.Lock")
	m.real.Lock()
}

//go:norace
func (m *RWMutex) Unlock() {
	s := Current()
	if s == nil {
		m.real.Unlock()
		return
	}
	m.real.Unlock()
	raceDisable()
	s.lock()
	m.writer = nil
	s.unlock()
	raceEnable()
}

//go:norace
func (m *RWMutex) RLock() {
	s := Current()
	if s == nil {
		m.real.RLock()
		return
	}
	t := s.self()
	t.waitR, t.waitW = m, false
	s.park(t, "RWMutex.RLock")
	m.real.RLock()
}

//go:norace
func (m *RWMutex) RUnlock() {
	s := Current()
	if s == nil {
		m.real.RUnlock()
		return
	}
	m.real.RUnlock()
	raceDisable()
	s.lock()
	m.readers--
	s.unlock()
	raceEnable()
}

//go:norace
func (m *RWMutex) RLocker() sync.Locker { return (*rlocker)(m) }

type rlocker RWMutex

//go:norace
func (r *rlocker) Lock() { (*RWMutex)(r).RLock() }

//go:norace
func (r *rlocker) Unlock() { (*RWMutex)(r).RUnlock() }

// Once replaces sync.Once (same structure as the standard one, over Mutex).
type Once struct {
	done uint32
	m    Mutex
}

//go:norace
func (o *Once) Do(f func()) {
	if atomic.LoadUint32(&o.done) == 1 {
		Yield("Once.Do")
		return
	}
	o.m.Lock()
	defer o.m.Unlock()
	if o.done == 0 {
		defer atomic.StoreUint32(&o.done, 1)
		f()
	}
}
