package simrt

import (
	"sync"
	"sync/atomic"
)

// Mutex replaces sync.Mutex in instrumented code. Under a scheduler a blocked
// Lock parks in the scheduler (a goroutine blocked on a real mutex is not
// durably blocked for synctest and would hang the simulator). The real mutex is
// still taken (never contended) so the race detector keeps seeing the library's
// own happens-before edges.
type Mutex struct {
	real  sync.Mutex
	owner *Task
}

//go:norace
func (m *Mutex) Lock() {
	s := Current()
	if s == nil {
		m.real.Lock()
		return
	}
	t := s.self()
	t.waitM = m
	s.park(t, "Mutex.Lock")
	m.real.Lock()
}

//go:norace
func (m *Mutex) TryLock() bool {
	s := Current()
	if s == nil {
		return m.real.TryLock()
	}
	t := s.self()
	s.park(t, "Mutex.TryLock")
	s.lock()
	ok := m.owner == nil
	if ok {
		m.owner = t
	}
	s.unlock()
	if ok {
		m.real.Lock()
	}
	return ok
}

//go:norace
func (m *Mutex) Unlock() {
	s := Current()
	if s == nil {
		m.real.Unlock()
		return
	}
	m.real.Unlock()
	raceDisable()
	s.lock()
	m.owner = nil
	s.unlock()
	raceEnable()
}

// RWMutex replaces sync.RWMutex. Like the real one it blocks new readers while
// a writer is blocked waiting for the readers that hold it.
type RWMutex struct {
	real    sync.RWMutex
	writer  *Task
	readers int
	wwait   int
}

//go:norace
func (m *RWMutex) Lock() {
	s := Current()
	if s == nil {
		m.real.Lock()
		return
	}
	t := s.self()
	raceDisable()
	s.lock()
	// A writer keeps new readers out only while it is really blocked (the lock is held). If the lock
	// is free, parking here stands for "descheduled just before calling Lock": readers that arrive
	// meanwhile get in. Counting such a writer as waiting would prune exactly those interleavings
	// (it hid a race between Session.Stop and the dispatch of the peer's Logout answer).
	if m.writer != nil || m.readers > 0 {
		m.wwait++
		t.wcounted = true
	}
	s.unlock()
	raceEnable()
	t.waitR, t.waitW = m, true
	s.park(t, "RWMutex.Lock")
	m.real.Lock()
}

//go:norace
func (m *RWMutex) Unlock() {
	s := Current()
	if s == nil {
		m.real.Unlock()
		return
	}
	m.real.Unlock()
	raceDisable()
	s.lock()
	m.writer = nil
	s.unlock()
	raceEnable()
}

//go:norace
func (m *RWMutex) RLock() {
	s := Current()
	if s == nil {
		m.real.RLock()
		return
	}
	t := s.self()
	t.waitR, t.waitW = m, false
	s.park(t, "RWMutex.RLock")
	m.real.RLock()
}

//go:norace
func (m *RWMutex) RUnlock() {
	s := Current()
	if s == nil {
		m.real.RUnlock()
		return
	}
	m.real.RUnlock()
	raceDisable()
	s.lock()
	m.readers--
	s.unlock()
	raceEnable()
}

//go:norace
func (m *RWMutex) RLocker() sync.Locker { return (*rlocker)(m) }

type rlocker RWMutex

//go:norace
func (r *rlocker) Lock() { (*RWMutex)(r).RLock() }

//go:norace
func (r *rlocker) Unlock() { (*RWMutex)(r).RUnlock() }

// Once replaces sync.Once (same structure as the standard one, over Mutex).
type Once struct {
	done uint32
	m    Mutex
}

//go:norace
func (o *Once) Do(f func()) {
	if atomic.LoadUint32(&o.done) == 1 {
		Yield("Once.Do")
		return
	}
	o.m.Lock()
	defer o.m.Unlock()
	if o.done == 0 {
		defer atomic.StoreUint32(&o.done, 1)
		f()
	}
}

// Cond replaces sync.Cond: Wait parks in the scheduler until Signal / Broadcast.
type Cond struct {
	L       sync.Locker
	real    *sync.Cond
	waiters []*Task
	tickets map[*Task]bool
}

// NewCond replaces sync.NewCond.
//
//go:norace
func NewCond(l sync.Locker) *Cond { return &Cond{L: l, real: sync.NewCond(l)} }

//go:norace
func (c *Cond) Wait() {
	s := Current()
	if s == nil {
		c.passthrough().Wait()
		return
	}
	t := s.self()
	s.lock()
	c.waiters = append(c.waiters, t)
	s.unlock()
	c.L.Unlock()
	t.waitF = func() bool { return c.tickets[t] }
	s.park(t, "Cond.Wait")
	t.waitF = nil
	s.lock()
	delete(c.tickets, t)
	s.unlock()
	c.L.Lock()
}

//go:norace
func (c *Cond) wake(n int) {
	s := Current()
	if s == nil {
		if n == 1 {
			c.passthrough().Signal()
		} else {
			c.passthrough().Broadcast()
		}
		return
	}
	Yield("Cond.Signal")
	s.lock()
	if c.tickets == nil {
		c.tickets = map[*Task]bool{}
	}
	for n != 0 && len(c.waiters) > 0 {
		c.tickets[c.waiters[0]] = true
		c.waiters = c.waiters[1:]
		n--
	}
	s.unlock()
}

//go:norace
func (c *Cond) Signal() { c.wake(1) }

//go:norace
func (c *Cond) Broadcast() { c.wake(-1) }

var condInit sync.Mutex

// passthrough returns the real condition variable used when no scheduler is installed
// (a Cond built as a composite literal has none yet).
//
//go:norace
func (c *Cond) passthrough() *sync.Cond {
	condInit.Lock()
	defer condInit.Unlock()
	if c.real == nil {
		c.real = sync.NewCond(c.L)
	}
	return c.real
}
