module verif/simrt

go 1.18
