//go:build race

package simrt

import "runtime"

// Under the race detector the scheduler's own hand-offs must not create
// happens-before edges between library goroutines: only the library's own
// synchronisation may order its memory accesses.
func raceDisable() { runtime.RaceDisable() }
func raceEnable()  { runtime.RaceEnable() }

const RaceEnabled = true

// RaceDisable / RaceEnable let the harness hide its own synchronisation too.
func RaceDisable() { runtime.RaceDisable() }
func RaceEnable()  { runtime.RaceEnable() }
