#!/usr/bin/env python3
"""Regenerates /verif/MANIFEST.json from sim/props.py (keeps the two in sync)."""
import json, os, sys
sys.path.insert(0, os.path.dirname(os.path.abspath(__file__)))
from props import PROPS

NA = {
 "C01": "pure function of the message value (Message.ToBytes): no schedule, clock, stream, peer or fault in its statement or quantifier, so deterministic simulation has nothing to decide; property-based testing territory (DESIGN.md §5)",
 "C02": "pure function (Unmarshal after ToBytes): no schedule, clock, stream or fault; same reason as C01 (DESIGN.md §5)",
 "C12": "single-threaded batch code generator reading XML and writing files; no concurrency, clock, peer or injectable fault for a simulator to explore; a translation-validation problem (DESIGN.md §5)",
 "C17": "pure function of the populated message template; no schedule, clock, stream or fault (DESIGN.md §5)",
 "C18": "pure function of the byte string; its one stream-facing mechanism (end-of-message detection across read boundaries) is exercised under C04 and its session-facing ones under C14/C16 (DESIGN.md §5)",
}
TEXT = {
 "C03": ("fault_enumeration", "corruption faults at the decode seam, exhaustive single-fault neighbourhood per message + stream faults into a live session",
         "Every single-byte substitution, deletion, interior insertion and proper prefix of each generated valid message is offered to both parsers (exhaustive per base message); in addition one transport fault per run is injected into the byte stream of a live session and everything the application's decoders accept must be authentic. Exhaustive over the damage neighbourhood of the sampled messages, sampled over messages and stream positions.",
         "base messages are sampled (11 generated types, drawn values); the neighbourhood of each is complete. One recorded finding (NUL inside BeginString), see known_findings.json."),
 "C04": ("exploration", "seeded segmentation / coalescing / interleaving of scripted byte streams over the simulated transport, 1-4 connections, all buffer sizes",
         "Real Conn/Acceptor/Initiator/DefaultHandler run against scripted peers whose streams are cut at framing-sensitive offsets and interleaved under a seeded scheduler; delivered = sent is checked as a prefix invariant at every settle and as equality at the end, per connection, at two observation points; outbound hand-offs are checked whole/once/ordered with a stalled reader.",
         "sampling of partitions and schedules; simnet models a byte stream (no reordering, arbitrary segmentation)."),
 "C05": ("exploration", "seeded scheduler over concurrent senders, timers and inbound-triggered replies; wire-side sequence oracle",
         "1-8 sender tasks (some reusing one message object), timer heartbeats and inbound-triggered echoes/Rejects interleave under the seeded scheduler with injected delays in store and handlers; the peer-side capture must be numbered start+k with correct identifiers and send times, also across a second session over the same counter store.",
         "preemption at synchronisation points only; no refusing handler / failing store (precondition)."),
 "C06": ("exploration", "generated inbound histories checked step by step against an executable logon reference model",
         "Histories over 12 Logon variants (12 kinds of non-numeric interval text) and every other message class, local sends, logouts and idle time are replayed against both roles; IsLogged, EventLogon and the Logon/Reject replies are compared with the model after every step.",
         "the model demands acceptance only for the first acceptable Logon of a connection; later re-logons are checked in the only-if direction."),
 "C07": ("exploration", "adversarial unauthenticated histories with a pre-populated shared store and long simulated idle time",
         "Histories without an acceptable Logon (ResendRequest ranges, TestRequests, refused/damaged Logons, idle up to 10 intervals) against a store that holds an earlier or parallel session's messages; every message leaving on the unauthenticated connection must be A/5/3 and never a byte-identical copy of another session's traffic.",
         "quantifier is over inbound histories; the only local calls in the history are Stop() and Logout() of the never-logged-on session (whatever follows is still sent by a peer that has not logged on)."),
 "C08": ("exploration", "simulated clock; send times placed around the heartbeat deadline; gap invariants on arrival times",
         "Application sends are placed 1 ms before / at / 1 ms after the running deadline, in bursts and after idle stretches of up to 50 periods, together with the library's own outbound messages, peer silence that leaves a TestRequest outstanding, and sends that fail (unsaved or refused) and transmit nothing; exact bounds on the fake clock (N+N/10 upper, N lower), same-instant ties tolerated.",
         "zero transport latency and no injected delays in this property, so the bounds are exact; N from the whole range 1..60. One recorded finding (a send refused by an application handler postpones the Heartbeat), see known_findings.json."),
 "C09": ("exploration", "simulated clock; inbound arrival patterns around both deadlines; timeline oracle",
         "Total silence, silence ending 1 ms before the first deadline, answers at drawn times of the second period (incl. T-1ms) and steady traffic for up to 300 periods; TestRequest and disconnect instants are checked against exact windows on the fake clock.",
         "T = N + max(1, N/20) with N chosen so that integer and real division agree."),
 "C10": ("exploration", "wire log of first transmissions as reference model; generated ResendRequest ranges and Logon sequence gaps",
         "After a mixed outbound history (optionally ending with the library's own TestRequest outstanding, optionally with a neighbour session on the shared store) the peer requests ranges of 9 shapes; retransmissions must equal the recorded first transmissions in the obligatory cases and never leave the range otherwise; Logon gaps (expected number written by hand or counted up by a real earlier session over the same stores) must produce a usable ResendRequest from the first missing number.",
         "requests are settled at one simulated instant so no timer traffic intervenes."),
 "C11": ("exploration", "hostile peer: grammar-mutated and raw byte strings through the real stream, ServeIncoming and the decoder API; no panic, no hang",
         "Byte strings with recomputed framing fields (group-count anomalies, nested counts, prefix/suffix tags, 60 KB values), damaged framing, degenerate strings and random bytes reach the decoder through three entry points with an application that decodes every inbound message; any recovered panic in any task is a violation; a step/wall watchdog bounds every run.",
         "generative, not coverage-guided; a run that exceeds the wall-clock watchdog is re-run alone in a fresh process and reported as a violation (class hang) only if it hangs again, otherwise the check exits 2."),
 "C13": ("fault_enumeration", "every termination cause x injection point x seeded schedule; post-conditions and goroutine census after the settle bound",
         "Nine termination causes are injected at six points of a session's life on both roles with traffic in flight and a drawn position in the interleaving; after the settle bound the socket is closed, the serving call has returned, the other side is notified, later sends return and no library goroutine is left (runtime.Stack census).",
         "causes and points are enumerated by sampling (all pairs reached in a quick run, see model_states_visited); interleavings are sampled."),
 "C14": ("exploration", "hostile TestReqIDs in bursts of a logged-on history; exactly-once / byte-identical / ordered echo oracle",
         "TestReqIDs of 1-300 arbitrary non-SOH bytes are sent alone and in back-to-back bursts mixed with other reply-producing traffic, optionally segmented; every request gets exactly one byte-identical echo, in request order and before replies to later messages.",
         "every ID carries a unique suffix so each echo is attributable."),
 "C15": ("exploration", "simulated clock; peer answer time vs. CloseTimeout; counts of Logouts and instant of context cancellation",
         "Peer Logout, local Logout and local Stop with the peer's answer at the same instant, 1 ms, CloseTimeout-1ms, a drawn time or never, or from a reactive peer task before the local call has returned, for CloseTimeout in {0,1ms,1s,30s}; Logout counts, EventLogout, IsLogged and the exact instant Session.Context() is cancelled are checked.",
         "exact on the fake clock."),
 "C16": ("exploration", "damaged / out-of-state admin messages injected into histories in five session states; one-Reject / state-unchanged oracle",
         "Every admin type x {wrong CheckSum, wrong BodyLength, non-numeric 108/7/16/34, missing 34, out of state} in {waiting, logged, TestRequest outstanding, logout sent}; exactly one Reject with the right reference, nothing else emitted, IsLogged and contexts unchanged, follow-up traffic served.",
         "timer-driven Heartbeats/TestRequests are ignored by this oracle."),
 "C19": ("exploration", "fault-injecting MessageStorage, generated handler sets with refusals, concurrent senders; call-log vs wire oracle",
         "The store wrapper fails drawn Save calls and outgoing handlers refuse at drawn call numbers while 1-4 tasks send and the peer sends inbound traffic; store log, handler log and wire capture are joined by sequence number (saved before sent, blocked sends return errors and never reach the wire, handler order and cut-off, handlers saw the wire bytes, inbound dispatch order).",
         "the real memory.Storage runs underneath the wrapper."),
 "C20": ("exploration", "the seeded scheduler under -race with its own hand-offs hidden from the detector (runtime.RaceDisable)",
         "A -race build of the union workload (senders, ResendRequests overlapping sends, queries, late registrations, expiring TestRequest timers, Stop/Logout/Close) on one acceptor with 1-3 real initiators; the scheduler's channel hand-offs, simnet and harness bookkeeping are invisible to the detector, so reports reflect only the library's own synchronisation; a report counts iff both accesses are in library frames.",
         "the detector judges the pairs of accesses an execution performs; schedule search widens that set."),
}

def main():
    checks = []
    for pid in sorted(PROPS):
        level, tech, text, note = TEXT[pid]
        assert PROPS[pid]["level"] == level, pid
        checks.append({
            "property_id": pid,
            "quick_cmd": "./check %s quick" % pid,
            "thorough_cmd": "./check %s thorough" % pid,
            "evidence_file": "/verif/evidence/%s.json" % pid,
            "replay_cmd_template": "./check replay {path}",
            "engine": "simrt+simnet+harness",
            "level_claimed": {"category": level, "text": text, "design_ref": "DESIGN.md §4 (%s)" % pid},
            "level_note": note,
            "technique": "deterministic simulation with fault injection: " + tech,
        })
    m = {
        "version": 1,
        "setup_cmd": "cd /verif && ./check setup",
        "hooks": {
            "guard": "verif",
            "enable": "no hook lives in /repo: every check copies /repo's working tree to a scratch directory, runs the go/ast instrumenter /verif/sim/instrument over the copy (x.go -> x_verif.go with //go:build verif, original prefixed with //go:build !verif) and builds the copy with -tags verif using go1.26.8",
            "baseline_off_cmd": "cd /repo && GOFLAGS=-mod=mod GOPROXY=off GOSUMDB=off go test -json -vet=off -count=1 -timeout 25m ./...",
            "source_commits": [],
            "add_only": True,
        },
        "engines": [{"name": "simrt+simnet+harness", "path": "/verif/sim", "serves_properties": sorted(PROPS),
                     "kind_free_text": "deterministic simulation with fault injection: seeded baton scheduler over real goroutines in a testing/synctest bubble (fake clock), go/ast instrumentation of a scratch copy, in-memory transport with fault plan, scripted peers with an independent wire codec, executable reference models, tape-based replay and shrinking"}],
        "checks": checks,
        "not_applicable": [{"property_id": k, "reason": v} for k, v in sorted(NA.items())],
        "notes": "Fixes to genuine defects are the 'fix:' commits in /repo; /verif/known_findings.json lists them and the one recorded finding. ./check selftest proves determinism of every scenario family; ./check translate runs the repository's tests on the instrumented build.",
    }
    with open(os.path.join(os.path.dirname(os.path.abspath(__file__)), "..", "MANIFEST.json"), "w") as f:
        json.dump(m, f, indent=1)

if __name__ == "__main__":
    main()
