#!/bin/bash
# usage: try_patch.sh <patch.diff> <PROP> [PROP...]
# Applies a seeded change to a throw-away worktree of /repo (never to /repo itself), runs the
# quick checks of the given properties against it with outputs redirected, removes the worktree.
set -u
patch=$(readlink -f "$1"); shift
wt=$(mktemp -d /var/tmp/sfseed-XXXXXX)
out=$(mktemp -d /var/tmp/sfseedout-XXXXXX)
git -C /repo worktree add -q --detach "$wt" HEAD || exit 2
trap 'git -C /repo worktree remove --force "$wt" >/dev/null 2>&1; rm -rf "$wt" "$out"' EXIT
git -C "$wt" apply "$patch" || { echo "patch does not apply"; exit 2; }
for p in "$@"; do
  VERIF_REPO="$wt" VERIF_OUT_DIR="$out" /verif/check "$p" quick 2>&1 | grep -a "^VIOLATION\|^KNOWN\|class=\|^$p \|check:" | sed "s#^#[$p] #" | head -${TRY_LINES:-8}
  echo "[$p] exit=${PIPESTATUS[0]}"
done
