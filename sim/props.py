# Per-property configuration of the check driver.

COMPONENTS = {
    "real": [
        "conn.go", "acceptor.go", "initiator.go", "handler.go", "handler_func_pool.go", "handler_factory.go",
        "session/*", "utils/timer.go", "utils/event_handler_pool.go", "storages/memory", "fix/*", "fix/encoding/*",
        "session/messages/*", "tests/fix44/* (generated message builders)", "golang.org/x/sync/errgroup (un-instrumented, real)",
    ],
    "stub": [
        "net.Conn / net.Listener (simnet)", "clock and timers (testing/synctest fake clock)",
        "goroutine scheduling (simrt baton scheduler, seeded)", "remote peer (scripted, independent wire codec)",
        "application callbacks", "fault-injecting wrapper around the real memory.Storage",
    ],
}

ASSUME = [
    "the go/ast instrumentation preserves behaviour (checked by ./check translate: the repository's stable tests pass on the instrumented build)",
    "preemption happens only at synchronisation points (channel ops, select, mutexes, Once, atomics, cancel/close/stop calls, go statements, transport and store calls)",
    "simnet models TCP semantics the library keys on (EOF after drain, net.ErrClosed text, deadline errors); kernel behaviour is not covered",
    "sampling, not enumeration: a clean batch is evidence, not proof",
]

PROPS = {
    "C06": {
        "scenarios": ["C06"],
        "level": "exploration",
        "quick_runs": {"C06": 4000},
        "thorough_runs": {"C06": 600000},
        "thorough_wall": 900,
        "rule": "each run = one generated inbound history (1-15 steps from {12 Logon variants, Heartbeat, TestRequest, ResendRequest, Logout, "
                "application, unknown type, local send, local logout, idle}) x role x heartbeat limits x buffer size x seeded schedule, checked step "
                "by step against the logon reference model; distinct = distinct context-switch-sequence hash; non-trivial = at least one preemption "
                "of a runnable task or one injected fault happened in the run",
        "mandatory_probes": ["reached_logged", "logon_while_logged"],
        "assumptions": ASSUME,
    },
}
