# Per-property configuration of the check driver.

COMPONENTS = {
    "real": [
        "conn.go", "acceptor.go", "initiator.go", "handler.go", "handler_func_pool.go", "handler_factory.go",
        "session/*", "utils/timer.go", "utils/event_handler_pool.go", "storages/memory", "fix/*", "fix/encoding/*",
        "session/messages/*", "tests/fix44/* (generated message builders)", "golang.org/x/sync/errgroup (un-instrumented, real)",
    ],
    "stub": [
        "net.Conn / net.Listener (simnet)", "clock and timers (testing/synctest fake clock)",
        "goroutine scheduling (simrt baton scheduler, seeded)", "remote peer (scripted, independent wire codec)",
        "application callbacks", "fault-injecting wrapper around the real memory.Storage",
    ],
}

ASSUME = [
    "the go/ast instrumentation preserves behaviour (checked by ./check translate: the repository's stable tests pass on the instrumented build)",
    "preemption happens only at synchronisation points (channel ops, select, mutexes, Once, atomics, cancel/close/stop calls, go statements, transport and store calls)",
    "simnet models TCP semantics the library keys on (EOF after drain, net.ErrClosed text, deadline errors); kernel behaviour is not covered",
    "sampling, not enumeration: a clean batch is evidence, not proof",
]

PROPS = {
    "C06": {
        "scenarios": ["C06"],
        "level": "exploration",
        "quick_runs": {"C06": 4000},
        "thorough_runs": {"C06": 600000},
        "thorough_wall": 900,
        "rule": "each run = one generated inbound history (1-15 steps from {12 Logon variants (the non-numeric interval drawn from 12 kinds: letters, fraction, exponent, hex, separator, lone sign, digit strings that wrap to an acceptable value modulo 2^64 / 2^65), Heartbeat, TestRequest, ResendRequest, Logout, "
                "application, unknown type, local send, local logout, idle}) x role x heartbeat limits x buffer size x initiator credentials {none, both, user only, password only} x seeded schedule, checked step "
                "by step against the logon reference model; distinct = distinct context-switch-sequence hash; non-trivial = at least one preemption "
                "of a runnable task or one injected fault happened in the run",
        "mandatory_probes": ["reached_logged", "logon_while_logged"],
        "assumptions": ASSUME,
    },
    "C07": {
        "scenarios": ["C07"],
        "level": "exploration",
        "quick_runs": {"C07": 3000},
        "thorough_runs": {"C07": 400000},
        "thorough_wall": 900,
        "rule": "each run = one adversarial inbound history without an acceptable Logon (1-16 steps from {ResendRequest over generated ranges, "
                "TestRequest, Heartbeat with and without a TestReqID, Logout, refused Logon (also with a sequence gap), damaged Logon, application, unknown type, idle up to 10x the largest interval, a local Stop() or Logout() of the never-logged-on session (close timeout 1 s or 1 h)}) x role x "
                "store mode (empty / earlier session / parallel authenticated session on the same shared memory.Storage) x buffer size x seeded schedule; "
                "oracle on every message captured from the unauthenticated connection; distinct = distinct context-switch-sequence hash; non-trivial = "
                "a preemption or fault happened",
        "mandatory_probes": ["store_prepopulated", "long_idle", "local_ending_before_logon"],
        "assumptions": ASSUME,
    },
    "C14": {
        "scenarios": ["C14"],
        "level": "exploration",
        "quick_runs": {"C14": 3000},
        "thorough_runs": {"C14": 400000},
        "thorough_wall": 900,
        "rule": "each run = a logged-on session (role x buffer x interval) receiving 1-6 bursts of 1-5 back-to-back messages from {TestRequest with a "
                "generated hostile TestReqID (1-300 bytes, any byte but SOH), Heartbeat, application message, Logon-while-logged (order marker), stray "
                "Heartbeat with 112}, optionally segmented, under a seeded schedule; oracle: exactly one byte-identical echo per request, in request "
                "order, before replies to later messages; distinct = distinct context-switch-sequence hash; non-trivial = a preemption happened",
        "mandatory_probes": ["testrequests", "burst"],
        "assumptions": ASSUME,
    },
    "C16": {
        "scenarios": ["C16"],
        "level": "exploration",
        "quick_runs": {"C16": 4000},
        "thorough_runs": {"C16": 500000},
        "thorough_wall": 900,
        "rule": "each run = session state (waiting for logon / logged on / TestRequest outstanding / logout sent) x role x buffer x interval, then "
                "1-5 invalid administrative messages from {A,5,0,1,2} x {wrong CheckSum, wrong BodyLength, non-numeric 108/7/16, non-numeric 34 (12 kinds of non-numeric text each: letters, fraction, exponent, hex, separator, lone sign, digit strings that wrap to the acceptable value modulo 2^64 / 2^65), "
                "missing 34, not permitted in this state}, each settled and compared with the model (one Reject, 45 or 371=34, state unchanged, contexts "
                "alive), then valid follow-up traffic; distinct = distinct context-switch-sequence hash; non-trivial = a preemption happened; "
                "model_states_visited lists the (type, damage, state) triples reached",
        "mandatory_probes": ["follow_up_checked", "probe_outstanding"],
        "assumptions": ASSUME,
    },
    "C10": {
        "scenarios": ["C10"],
        "level": "exploration",
        "quick_runs": {"C10": 3000},
        "thorough_runs": {"C10": 400000},
        "thorough_wall": 900,
        "rule": "each run = (3/4) a logged-on session (role x buffer x interval) that first produces 0-30 outbound messages of mixed origin "
                "(application sends, TestRequest echoes, Rejects, timer heartbeats), in a quarter of the runs then stays silent until the library's own TestRequest is outstanding, then receives 1-5 ResendRequests with ranges from {inside, single, "
                "open-ended 16=0, to-last, end beyond last, wholly beyond, inverted, begin 0, all}; the peer-side wire log of first transmissions is the "
                "reference model; in a third of the accepting runs a neighbour session with look-alike identifiers (LIB+PEER / LIBP+EER) shares the store and sends in between; or (1/4) a Logon whose 34 is drawn around the expected number on a fresh store, a store pre-counted by hand, or a store that a real earlier session over the same stores has counted up (the request must start at the first missing number and carry a usable EndSeqNo); distinct = distinct "
                "context-switch-sequence hash; non-trivial = a preemption happened; model_states_visited lists range shapes reached",
        "mandatory_probes": ["resend_in_range", "logon_gap", "resend_while_probe_outstanding", "logon_gap_after_earlier_session"],
        "assumptions": ASSUME,
    },
    "C15": {
        "scenarios": ["C15"],
        "level": "exploration",
        "quick_runs": {"C15": 3000},
        "thorough_runs": {"C15": 400000},
        "thorough_wall": 900,
        "rule": "each run = a logged-on session (role x buffer x interval x CloseTimeout in {0,1ms,1s,30s}) ended by {peer Logout, local Logout then the "
                "peer's answer after a generated delay, local Stop with the peer's answer at {same instant, 1 ms, CloseTimeout-1ms, a generated time, never}}, optionally begun while the library's own TestRequest is outstanding, with other inbound traffic between Stop and the answer, with an application event handler that returns false (then one more handler registration after the exchange, which must return), or (a third of the local endings) with a reactive peer task that answers the Logout the moment it appears on the wire, so that the answer can be dispatched before Logout()/Stop() has returned; local calls run on their own task and must return; "
                "oracle counts Logouts on the wire, EventLogout, IsLogged and the exact simulated instant at which Session.Context() is cancelled; distinct = "
                "distinct context-switch-sequence hash; non-trivial = a preemption happened; model_states_visited lists (answer mode, CloseTimeout) pairs",
        "mandatory_probes": ["peer_logout", "local_logout", "stop_deadline_path", "stop_answer_path", "reactive_peer_answer"],
        "assumptions": ASSUME,
    },
    "C19": {
        "scenarios": ["C19"],
        "level": "exploration",
        "quick_runs": {"C19": 3000},
        "thorough_runs": {"C19": 400000},
        "thorough_wall": 900,
        "rule": "each run = a logged-on session (role x buffer x interval) with 0-3 all-types and 0-4 per-type outgoing handlers and as many incoming "
                "handlers registered in a drawn order, each outgoing and incoming handler refusing at drawn call numbers (fault tape), the MessageStorage wrapper failing "
                "0-2 drawn Save calls, all-types outgoing handlers that modify the message, handlers registered during a dispatch and by another task mid-traffic, 1-4 concurrent sender tasks x 1-5 messages of 2 types, 0-5 inbound messages of 12 kinds (incl. types that have a handled type as prefix, and types the session itself handles first: a ResendRequest for numbers never sent, a second Logon, damaged administrative messages), timer traffic; oracle joins the "
                "store call log, the handler call log and the peer-side wire capture by sequence number; distinct = distinct context-switch-sequence hash; "
                "non-trivial = a preemption happened or a fault (failed Save / refusal) fired",
        "mandatory_probes": ["blocked_send", "store_save_failed", "handler_refused_outgoing", "handler_refused_incoming", "all_types_refusal_then_type_handlers", "inbound_dispatch_checked", "outgoing_handlers_ran"],
        "assumptions": ASSUME,
    },
    "C04": {
        "scenarios": ["C04"],
        "level": "exploration",
        "quick_runs": {"C04": 2000},
        "thorough_runs": {"C04": 400000},
        "thorough_wall": 900,
        "rule": "each run = role x handler buffer {0,1,2,10} x conn buffer {0,1,10} x 1-4 simultaneous connections; per connection 0-40 generated well-formed "
                "messages (20 B-8 KiB, 9 MsgTypes, values containing 10= lookalikes) + optional trailing proper prefix, the concatenated stream cut whole / per byte / at "
                "random / at framing-sensitive offsets, chunks of all connections interleaved in a drawn order with drawn yields, settles and delays, optional slow consumer; "
                "then 1-4 tasks x 1-6 unique outbound hand-offs per connection with an optionally stalled reader; oracles: prefix invariant at every settle, equality at the end, at "
                "ServeIncoming and at the incoming callback, no overlap, no cross-talk; outbound whole/once/ordered by (return<invoke); distinct = distinct context-switch-sequence hash; "
                "non-trivial = a preemption happened",
        "mandatory_probes": ["boundary_inside_checksum_tag", "boundary_inside_checksum_digits", "many_messages_one_read", "one_byte_reads", "multi_connection",
                             "buffer_zero", "trailing_partial", "outbound_checked", "reader_stalled", "partial_write_at_deadline", "torn_tail_after_write_deadline"],
        "assumptions": ASSUME,
    },
    "C05": {
        "scenarios": ["C05"],
        "level": "exploration",
        "quick_runs": {"C05": 2000},
        "thorough_runs": {"C05": 300000},
        "thorough_wall": 900,
        "rule": "each run = role x buffer {0,1,10} x interval 1-3 s x delay mode (none / yields / fake-time sleeps inside counter store, message store and outgoing "
                "handler) x 1-8 concurrent sender tasks (a third of them sending one message object again and again with a new identifier) x 1-30 messages (burst / ms apart / around heartbeat periods) x 0-7 inbound TestRequests and damaged Heartbeats "
                "(replies and Rejects originate on the inbound goroutine) + timer heartbeats, 30% of runs with a second connection and Session over the same counter store; "
                "oracle on the peer-side capture split by the independent tokenizer: 34 = start+k, 49/56, 52 format and range; distinct = distinct context-switch-sequence hash; "
                "non-trivial = a preemption happened",
        "mandatory_probes": ["concurrent_senders", "library_heartbeats_interleaved", "reject_raced", "continued_from_stored_counter", "message_object_reused"],
        "assumptions": ASSUME,
    },
    "C08": {
        "scenarios": ["C08"],
        "level": "exploration",
        "quick_runs": {"C08": 1500},
        "thorough_runs": {"C08": 200000},
        "thorough_wall": 900,
        "rule": "each run = role x buffer x N in {1,2,3,5,7,10,20,40,60} s x logon at a drawn sub-second phase, then 3-22 actions placed relative to the running deadline "
                "d = last outbound + N: send at d-N/10-1ms / d-1ms / d / d+1ms, bursts, idle stretches of 3-50 periods, random sends, peer silence long enough for the library's own TestRequest to be outstanding (ending before the disconnect), application sends that fail inside the period (the store fails to save that message, or an application outgoing handler refuses it) and transmit nothing; inbound keep-alives at drawn times; "
                "zero transport latency, no injected delays; oracle over the simulated arrival times of every outbound message (upper gap bound N+N/10, no unsolicited "
                "Heartbeat within N of an earlier outbound message); distinct = distinct context-switch-sequence hash; non-trivial = a preemption happened",
        "mandatory_probes": ["send_1ms_before_deadline", "send_at_deadline", "send_1ms_after_deadline", "send_before_last_tick", "burst", "idle_30_periods", "timer_heartbeat", "peer_silent_testrequest_outstanding", "failed-save", "refused-send"],
        "assumptions": ASSUME,
    },
    "C09": {
        "scenarios": ["C09"],
        "level": "exploration",
        "quick_runs": {"C09": 1500},
        "thorough_runs": {"C09": 200000},
        "thorough_wall": 900,
        "rule": "each run = role x buffer x N x logon phase x inbound pattern in {total silence, silence ending 1 ms before the first deadline, an answer of a drawn type 1 ms after "
                "the TestRequest or at a drawn time (incl. T-1ms) in the second period, steady traffic of mixed types with period <= N for 20-300 periods}; timeline oracle with "
                "T = N + max(1,N/20): first TestRequest in [t0+T, t0+T+T/10], disconnect (peer EOF + notification) in [t1+T, t1+T+T/10], no disconnect within T of an answer, "
                "zero TestRequests and disconnects under steady traffic; distinct = distinct context-switch-sequence hash; non-trivial = a preemption happened",
        "mandatory_probes": ["testrequest_sent", "disconnected_for_silence", "answer_cancelled_disconnect", "second_cycle_checked", "steady_periods", "inbound_1ms_before_first_deadline"],
        "assumptions": ASSUME,
    },
    "C13": {
        "scenarios": ["C13"],
        "level": "fault_enumeration",
        "quick_runs": {"C13": 2400},
        "batch": 50,
        "thorough_runs": {"C13": 400000},
        "thorough_wall": 1200,
        "rule": "each run = one termination cause from {peer EOF, peer reset, read error, write error, short write, peer stops reading (write deadline), local Close of the "
                "client / acceptor, handler Stop, listener error, undecodable message} x role x injection point {before logon, inside a half-delivered Logon, logged idle, mid-traffic with 1-3 "
                "application senders and a bursty segmenting peer in flight (optionally with a message cut in the middle, optionally congested: the peer stopped reading just before), during logout} x buffer {0,1,10} x a drawn position in the "
                "interleaving (0-80 yields, optional delay) x seeded schedule; post-conditions after the settle bound S: socket closed, serving call returned, notification, later "
                "sends return, census of library goroutines (runtime.Stack filtered to library frames) empty; a run that reaches the step limit after the cause (something keeps running and never blocks) is a violation of class livelock; distinct = distinct context-switch-sequence hash; non-trivial = the "
                "fault actually fired; model_states_visited lists the (role, cause, point) triples reached",
        "mandatory_probes": ["traffic_in_flight", "cause_inside_message", "write_error", "short_write", "write_deadline", "read_error", "local_close", "handler_stop", "undecodable_message"],
        "assumptions": ASSUME,
    },
    "C03": {
        "scenarios": ["C03", "C03S"],
        "level": "fault_enumeration",
        "quick_runs": {"C03": 96, "C03S": 3000},
        "thorough_runs": {"C03": 6000, "C03S": 300000},
        "thorough_wall": 1500,
        "rule": "scenario C03: each run = one valid message serialised by the library's generated builders (11 types, header, groups, drawn values) whose complete single-fault "
                "neighbourhood is enumerated at the decode seam: every single-byte substitution (len x 255), every deletion, every interior insertion ((len-1) x 256) and every proper "
                "prefix, each offered to encoding.Unmarshal (strict) and DefaultUnmarshaller{Strict:false}; exhaustive per base message (reach_probes.variants counts them), not over the "
                "message space. Scenario C03S: one transport fault (substitute / insert / delete / cut) at a drawn offset of an authentic multi-message stream into a live logged-on session "
                "whose application decodes everything it is handed; oracle accepted => authentic. distinct = distinct base messages / switch-sequence hashes; non-trivial = the neighbourhood was enumerated or the fault fired",
        "mandatory_probes": ["variants", "base_messages", "authentic_accepted", "damage_rejected_by_session"],
        "assumptions": ASSUME + ["C03 enumerates at the post-framing seam (what DefaultHandler hands to decoders); stream-level effects are sampled by C03S"],
    },
    "C11": {
        "scenarios": ["C11"],
        "level": "exploration",
        "quick_runs": {"C11": 4000},
        "thorough_runs": {"C11": 600000},
        "thorough_wall": 900,
        "hang_is_violation": True,
        "watchdog_s": 25,
        "rule": "each run = role x buffer x before/after logon, then 1-12 hostile byte strings: grammar mutations with recomputed BodyLength/CheckSum (group counts last / non-numeric / "
                "negative / larger or smaller than the entries, entries without first field, nested counts, prefix/suffix tags, empty and duplicated fields, fields without '=', 60 KB values), "
                "damaged framing fields, fixed degenerate strings (empty, '8', no SOH), random bytes, randomly edited valid messages, group-counter look-alikes, and valid administrative messages in odd orders (logon, logout, logon again, ...); each delivered through the real stream (segmented), at "
                "DefaultHandler.ServeIncoming, or to encoding.Unmarshal / DefaultUnmarshaller / fix.ValueByTag directly, with an application that decodes every inbound message into its "
                "generated type; oracle: no task ends in a panic, no run exceeds the step / wall watchdog; distinct = distinct context-switch-sequence hash; non-trivial = a preemption happened",
        "mandatory_probes": ["via_stream", "via_serve_incoming", "via_decoder_api"],
        "assumptions": ASSUME,
    },
    "C20": {
        "scenarios": ["C20"],
        "race": True,
        "level": "exploration",
        "quick_runs": {"C20": 240},
        "thorough_runs": {"C20": 60000},
        "thorough_wall": 1200,
        "batch": 25,
        "rule": "each run (a -race build) = one acceptor with 1-3 real initiators over simnet, the accepted sessions sharing one memory.Storage; per side 1-3 sender tasks, "
                "ResendRequests and TestRequests overlapping sends, IsLogged/Context queries, OnChangeState / HandleIncoming / HandleOutgoing registration during traffic, a direction "
                "silenced long enough for TestRequest timers to expire, a stuttering scripted peer (the inbound-silence timer expires between single inbound messages), ResendRequests reaching the message in flight, traffic after a session stop, then Stop / Logout / Close during traffic; the seeded scheduler decides every interleaving and its own hand-offs "
                "are hidden from the detector (runtime.RaceDisable), so only the library's synchronisation orders accesses; a report counts iff both accesses have their innermost "
                "non-runtime frame in a library package; distinct = distinct context-switch-sequence hash; non-trivial = a preemption happened",
        "mandatory_probes": ["logged_on", "resend_overlapped_send", "silence_injected", "stop_during_traffic", "timer_expired_between_single_messages"],
        "assumptions": ASSUME + ["the race detector judges only the pairs of accesses an execution performs; the union workload and schedule search widen that set, they do not close it"],
    },
}
