module verif/mutate

go 1.18
