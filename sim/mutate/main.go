// mutate lists small syntactic mutation sites of Go source files as JSON: one entry per
// (file, byte range, replacement text, kind). The driver (sim/mutation_run.py) applies one
// site at a time to a throw-away worktree. No type information is used: mutants that do
// not compile are discarded by the driver.
package main

import (
	"encoding/json"
	"fmt"
	"go/ast"
	"go/parser"
	"go/token"
	"os"
	"strconv"
)

type Site struct {
	File  string `json:"file"`
	Start int    `json:"start"`
	End   int    `json:"end"`
	New   string `json:"new"`
	Kind  string `json:"kind"`
	Line  int    `json:"line"`
	Func  string `json:"func"`
	Old   string `json:"old"`
}

var flip = map[token.Token]string{
	token.LSS: "<=", token.LEQ: "<", token.GTR: ">=", token.GEQ: ">", token.EQL: "!=", token.NEQ: "==",
	token.LAND: "||", token.LOR: "&&", token.ADD: "-", token.SUB: "+",
}

func main() {
	var out []Site
	for _, path := range os.Args[1:] {
		src, err := os.ReadFile(path)
		if err != nil {
			fmt.Fprintln(os.Stderr, err)
			os.Exit(2)
		}
		fset := token.NewFileSet()
		f, err := parser.ParseFile(fset, path, src, 0)
		if err != nil {
			fmt.Fprintln(os.Stderr, err)
			os.Exit(2)
		}
		off := func(p token.Pos) int { return fset.Position(p).Offset }
		for _, d := range f.Decls {
			fd, ok := d.(*ast.FuncDecl)
			if !ok || fd.Body == nil {
				continue
			}
			name := fd.Name.Name
			if fd.Recv != nil && len(fd.Recv.List) > 0 {
				switch t := fd.Recv.List[0].Type.(type) {
				case *ast.StarExpr:
					if id, ok := t.X.(*ast.Ident); ok {
						name = id.Name + "." + name
					}
				case *ast.Ident:
					name = t.Name + "." + name
				}
			}
			add := func(start, end token.Pos, repl, kind string) {
				out = append(out, Site{File: path, Start: off(start), End: off(end), New: repl, Kind: kind, Line: fset.Position(start).Line, Func: name,
					Old: string(src[off(start):off(end)])})
			}
			ast.Inspect(fd.Body, func(n ast.Node) bool {
				switch x := n.(type) {
				case *ast.BinaryExpr:
					if r, ok := flip[x.Op]; ok {
						if x.Op == token.ADD || x.Op == token.SUB {
							// skip string concatenation candidates: only when one side is an integer literal
							_, l1 := x.X.(*ast.BasicLit)
							_, l2 := x.Y.(*ast.BasicLit)
							if !(l1 || l2) {
								return true
							}
							if bl, ok := x.Y.(*ast.BasicLit); ok && bl.Kind == token.STRING {
								return true
							}
							if bl, ok := x.X.(*ast.BasicLit); ok && bl.Kind == token.STRING {
								return true
							}
						}
						add(x.OpPos, x.OpPos+token.Pos(len(x.Op.String())), r, "operator "+x.Op.String()+" -> "+r)
					}
				case *ast.IfStmt:
					add(x.Cond.Pos(), x.Cond.End(), "!("+string(src[off(x.Cond.Pos()):off(x.Cond.End())])+")", "negated condition")
				case *ast.ExprStmt:
					if c, ok := x.X.(*ast.CallExpr); ok {
						if id, ok := c.Fun.(*ast.Ident); ok && id.Name == "panic" {
							return true
						}
						add(x.Pos(), x.End(), "", "call statement removed")
					}
				case *ast.DeferStmt:
					add(x.Pos(), x.End(), "", "defer removed")
				case *ast.GoStmt:
					// run it inline instead of concurrently / not at all
					add(x.Pos(), x.End(), "", "go statement removed")
				case *ast.AssignStmt:
					if x.Tok == token.ASSIGN {
						add(x.Pos(), x.End(), "", "assignment removed")
					}
				case *ast.IncDecStmt:
					if x.Tok == token.INC {
						add(x.TokPos, x.TokPos+2, "--", "++ -> --")
					} else {
						add(x.TokPos, x.TokPos+2, "++", "-- -> ++")
					}
				case *ast.BasicLit:
					if x.Kind == token.INT {
						if v, err := strconv.Atoi(x.Value); err == nil {
							add(x.Pos(), x.End(), strconv.Itoa(v+1), "integer constant + 1")
						}
					}
				case *ast.ReturnStmt:
					// "return true" <-> "return false" for single boolean results
					if len(x.Results) == 1 {
						if id, ok := x.Results[0].(*ast.Ident); ok && (id.Name == "true" || id.Name == "false") {
							nv := "true"
							if id.Name == "true" {
								nv = "false"
							}
							add(id.Pos(), id.End(), nv, "return "+id.Name+" -> "+nv)
						}
					}
				case *ast.CaseClause, *ast.CommClause:
					// the body of a case emptied: handled through the statements inside
				}
				return true
			})
		}
	}
	enc := json.NewEncoder(os.Stdout)
	enc.SetIndent("", " ")
	_ = enc.Encode(out)
}
